(* Pushdown automata: one concrete record for both NPDA and DPDA tables (mirroring the
   Python `transitions` dict: state -> input symbol or "" -> stack top -> moves) and the
   textbook semantics every C02 theorem is stated against.

   In the specification the stack is written TOP FIRST (the usual convention: a move
   replaces the top symbol Z by the string `push`, whose first symbol becomes the new
   top).  The executable model keeps Python's orientation (top = last element of the
   tuple); `Proofs/PDA.v` relates the two through list reversal. *)
From Coq Require Import List Arith Bool Lia.
From AV Require Import Base.Util Spec.Lang Spec.FA.
Import ListNotations.

Inductive acc_mode := FinalState | EmptyStack | BothModes.

(* a move: target state and the symbols that replace the stack top (first = new top) *)
Definition pmove := (nat * list nat)%type.
(* per stack top: the moves.  NPDA: any number; DPDA: exactly one (see dpda_shape) *)
Definition ptops := list (nat * list pmove).
(* per input symbol (None = empty-string move) *)
Definition prow := list (option nat * ptops).

Record pda := mkpda {
  p_states : list nat; p_syms : list nat; p_stack_syms : list nat;
  p_trans : list (nat * prow);
  p_init : nat; p_init_stack : nat; p_finals : list nat; p_mode : acc_mode }.

(* the moves listed under (state, input-or-epsilon, stack top); [] when any key is missing *)
Definition p_entry (m : pda) (q : nat) (a : option nat) (Z : nat) : list pmove :=
  match assoc q (p_trans m) with
  | Some row => match oassoc a row with
                | Some tops => match assoc Z tops with Some e => e | None => [] end
                | None => []
                end
  | None => []
  end.

(* ---- textbook configurations and the one-move relation ---- *)
(* (state, remaining input, stack written top first) *)
Definition sconf := (nat * word * list nat)%type.

Inductive pda_move (m : pda) : sconf -> sconf -> Prop :=
| mv_sym q a w Z s q' push :
    In (q', push) (p_entry m q (Some a) Z) -> pda_move m (q, a :: w, Z :: s) (q', w, push ++ s)
| mv_eps q w Z s q' push :
    In (q', push) (p_entry m q None Z) -> pda_move m (q, w, Z :: s) (q', w, push ++ s).

(* exactly k moves *)
Inductive pda_moves (m : pda) : nat -> sconf -> sconf -> Prop :=
| mvs_0 c : pda_moves m 0 c c
| mvs_S k c c1 c2 : pda_moves m k c c1 -> pda_move m c1 c2 -> pda_moves m (S k) c c2.

(* reflexive-transitive closure *)
Definition pda_reach (m : pda) (c c' : sconf) : Prop := exists k, pda_moves m k c c'.

Definition final_or_empty (m : pda) (q : nat) (s : list nat) : Prop :=
  match p_mode m with
  | FinalState => In q (p_finals m)
  | EmptyStack => s = []
  | BothModes => s = [] \/ In q (p_finals m)
  end.

(* accepting configuration: the whole input consumed, and final state / empty stack / either *)
Definition pda_accepting (m : pda) (c : sconf) : Prop :=
  let '(q, w, s) := c in w = [] /\ final_or_empty m q s.

Definition pda_start (m : pda) (w : word) : sconf := (p_init m, w, [p_init_stack m]).

(* acceptance: some sequence of moves (possibly none: the start configuration counts)
   consumes all of w and ends in an accepting configuration *)
Definition pda_accepts (m : pda) (w : word) : Prop :=
  exists c, pda_reach m (pda_start m w) c /\ pda_accepting m c.
Definition L_pda (m : pda) : lang := pda_accepts m.

(* ---- determinism, stated on configurations ---- *)
(* a table rule (q, a, Z, q', push): in state q reading a (or nothing) with Z on top *)
Definition prule := (nat * option nat * nat * nat * list nat)%type.

Definition rule_in (m : pda) (r : prule) : Prop :=
  let '(q, a, Z, q', push) := r in In (q', push) (p_entry m q a Z).

Definition applicable (r : prule) (c : sconf) : Prop :=
  let '(q, a, Z, _, _) := r in
  let '(p, w, s) := c in
  p = q /\ hd_error s = Some Z /\
  match a with None => True | Some x => hd_error w = Some x end.

(* no configuration has two applicable moves *)
Definition deterministic (m : pda) : Prop :=
  forall c r1 r2, rule_in m r1 -> rule_in m r2 -> applicable r1 c -> applicable r2 c -> r1 = r2.

(* ---- well-formedness ---- *)
(* Python dicts have no duplicate keys: states, input-symbol keys, stack-top keys *)
Definition tops_keys_ok (t : ptops) : bool := nodupb (map fst t).

Fixpoint okeys_nodupb (l : list (option nat)) : bool :=
  match l with
  | [] => true
  | x :: r => negb (existsb (eqb_opt Nat.eqb x) r) && okeys_nodupb r
  end.

Definition row_keys_ok (r : prow) : bool :=
  okeys_nodupb (map fst r) && forallb (fun p => tops_keys_ok (snd p)) r.

Definition keys_ok (m : pda) : bool :=
  nodupb (map fst (p_trans m)) && forallb (fun p => row_keys_ok (snd p)) (p_trans m).

(* what PDA.validate() checks (both classes): input-symbol keys, stack-symbol keys,
   initial state, initial stack symbol, final states.  Target states and pushed symbols
   are NOT checked by the library, and no theorem below needs them. *)
Definition prow_syms_ok (m : pda) (r : prow) : bool :=
  forallb (fun p => match fst p with Some a => memb a (p_syms m) | None => true end
                    && forallb (fun t => memb (fst t) (p_stack_syms m)) (snd p)) r.

Definition valid_pda (m : pda) : bool :=
  keys_ok m &&
  forallb (fun p => prow_syms_ok m (snd p)) (p_trans m) &&
  memb (p_init m) (p_states m) && memb (p_init_stack m) (p_stack_syms m) &&
  subsetb (p_finals m) (p_states m).

(* DPDA tables: exactly one move under every (state, input, top) key *)
Definition dpda_shape (m : pda) : bool :=
  forallb (fun p => forallb (fun r => forallb (fun t => Nat.eqb (length (snd t)) 1) (snd r)) (snd p))
          (p_trans m).
