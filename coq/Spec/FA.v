(* Finite automata: concrete records mirroring the Python objects and the
   textbook acceptance semantics every FA property is stated against. *)
From Coq Require Import List Arith Bool Lia.
From AV Require Import Base.Util Spec.Lang.
Import ListNotations.

(* states and symbols are nat; a row lists (symbol, target) *)
Record dfa := mkdfa {
  d_states : list nat; d_syms : list nat;
  d_trans : list (nat * list (nat * nat));
  d_init : nat; d_finals : list nat; d_partial : bool }.

Definition d_row (m : dfa) (q : nat) : option (list (nat * nat)) := assoc q (d_trans m).
Definition d_delta (m : dfa) (q a : nat) : option nat :=
  match d_row m q with Some row => assoc a row | None => None end.

Definition ostep (m : dfa) (q : option nat) (a : nat) : option nat :=
  match q with Some s => d_delta m s a | None => None end.

Fixpoint dfa_run (m : dfa) (q : option nat) (w : word) : option nat :=   (* None absorbs *)
  match w with [] => q | a :: r => dfa_run m (ostep m q a) r end.

Definition ofinal (m : dfa) (q : option nat) : bool :=
  match q with Some s => memb s (d_finals m) | None => false end.

Definition dfa_acc_from (m : dfa) (q : option nat) (w : word) : bool := ofinal m (dfa_run m q w).
Definition dfa_acc (m : dfa) (w : word) : bool := dfa_acc_from m (Some (d_init m)) w.
Definition L_dfa (m : dfa) : lang := fun w => dfa_acc m w = true.

Lemma dfa_run_app m q u v : dfa_run m q (u ++ v) = dfa_run m (dfa_run m q u) v.
Proof. revert q; induction u as [|a u IH]; intro q; simpl; [reflexivity|apply IH]. Qed.

Lemma dfa_run_None m w : dfa_run m None w = None.
Proof. induction w as [|a w IH]; simpl; [reflexivity|exact IH]. Qed.

(* well-formedness, as DFA.validate() checks it, plus duplicate-freeness of the
   keys (Python dicts/sets cannot have duplicates) *)
Definition row_ok (m : dfa) (row : list (nat * nat)) : bool :=
  nodupb (map fst row) &&
  forallb (fun p => memb (fst p) (d_syms m) && memb (snd p) (d_states m)) row &&
  (d_partial m || forallb (fun a => memb a (map fst row)) (d_syms m)).

Definition valid_dfa (m : dfa) : bool :=
  nodupb (d_states m) && nodupb (d_syms m) && nodupb (map fst (d_trans m)) &&
  forallb (fun q => memb q (map fst (d_trans m))) (d_states m) &&
  forallb (fun r => row_ok m (snd r)) (d_trans m) &&
  memb (d_init m) (d_states m) && subsetb (d_finals m) (d_states m).

Definition complete (m : dfa) : Prop :=
  forall q a, In q (d_states m) -> In a (d_syms m) -> exists q', d_delta m q a = Some q'.
Definition size (m : dfa) := length (d_states m).

(* ---- NFA: symbol None is the empty-string transition ---- *)
Record nfa := mknfa {
  n_states : list nat; n_syms : list nat;
  n_trans : list (nat * list (option nat * list nat));
  n_init : nat; n_finals : list nat }.

Fixpoint oassoc {B} (k : option nat) (l : list (option nat * B)) : option B :=
  match l with
  | [] => None
  | (k', v) :: r => if eqb_opt Nat.eqb k k' then Some v else oassoc k r
  end.

Definition n_targets (m : nfa) (q : nat) (a : option nat) : list nat :=
  match assoc q (n_trans m) with
  | Some row => match oassoc a row with Some l => l | None => [] end
  | None => []
  end.

Definition n_edge (m : nfa) (p : nat) (a : option nat) (q : nat) : Prop := In q (n_targets m p a).

Inductive nfa_path (m : nfa) : nat -> word -> nat -> Prop :=
| np_refl q : nfa_path m q [] q
| np_eps p q r w   : n_edge m p None q     -> nfa_path m q w r -> nfa_path m p w r
| np_sym p a q r w : n_edge m p (Some a) q -> nfa_path m q w r -> nfa_path m p (a :: w) r.

Definition L_nfa (m : nfa) : lang :=
  fun w => exists q, nfa_path m (n_init m) w q /\ In q (n_finals m).

Definition nrow_ok (m : nfa) (row : list (option nat * list nat)) : bool :=
  forallb (fun p => match fst p with Some a => memb a (n_syms m) | None => true end
                    && subsetb (snd p) (n_states m)) row.

(* NFA.validate(): symbols, end states, initial state, initial-state row rule, finals *)
Definition valid_nfa (m : nfa) : bool :=
  nodupb (n_states m) && nodupb (n_syms m) && nodupb (map fst (n_trans m)) &&
  forallb (fun r => nrow_ok m (snd r)) (n_trans m) &&
  memb (n_init m) (n_states m) &&
  (memb (n_init m) (map fst (n_trans m)) || Nat.leb (length (n_states m)) 1) &&
  subsetb (n_finals m) (n_states m).

Lemma nfa_path_app m p u q v r : nfa_path m p u q -> nfa_path m q v r -> nfa_path m p (u ++ v) r.
Proof.
  intros H1 H2. induction H1 as [q|p q r' w He Hp IH|p a q r' w He Hp IH]; simpl.
  - exact H2.
  - eapply np_eps; [exact He|apply IH; exact H2].
  - eapply np_sym; [exact He|apply IH; exact H2].
Qed.
