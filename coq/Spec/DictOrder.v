(* Dictionary (lexicographic) order on words over nat-coded symbols, and the
   enumeration of all words up to a length in that order.  Symbols are numbered by
   their rank under the user's sort key, so the order on symbol codes is plain [<].
   A proper prefix is smaller than its extensions; otherwise the first differing
   symbol decides.  (C14: successors / predecessors; also usable for C13.) *)
From Coq Require Import List Arith Bool Lia Sorted.
From AV Require Import Base.Util Spec.Lang.
Import ListNotations.

Inductive lex_lt : word -> word -> Prop :=
| lex_nil a v : lex_lt [] (a :: v)
| lex_head a b u v : a < b -> lex_lt (a :: u) (b :: v)
| lex_tail a u v : lex_lt u v -> lex_lt (a :: u) (a :: v).

Definition lex_le (u v : word) : Prop := lex_lt u v \/ u = v.

Fixpoint lex_ltb (u v : word) : bool :=
  match u, v with
  | _, [] => false
  | [], _ :: _ => true
  | a :: u', b :: v' => (a <? b) || ((a =? b) && lex_ltb u' v')
  end.

Definition word_eqb : word -> word -> bool := eqb_list Nat.eqb.
Definition lex_leb (u v : word) : bool := lex_ltb u v || word_eqb u v.

(* all words of length <= hi over syms, preorder: a word, then its extensions symbol by symbol *)
Fixpoint dict_order (syms : list nat) (hi : nat) : list word :=
  [] :: match hi with
        | 0 => []
        | S h => flat_map (fun a => map (cons a) (dict_order syms h)) syms
        end.

(* ---------- the order ---------- *)
Section Order.
  Lemma lex_ltb_spec u v : lex_ltb u v = true <-> lex_lt u v.
  Proof.
    revert v. induction u as [|a u IH]; intros [|b v]; simpl.
    - split; [discriminate|intro H; inversion H].
    - split; [intro; constructor|reflexivity].
    - split; [discriminate|intro H; inversion H].
    - rewrite orb_true_iff, andb_true_iff, Nat.ltb_lt, Nat.eqb_eq, IH. split.
      + intros [H|[E H]]; [apply lex_head; exact H|subst b; apply lex_tail; exact H].
      + intro H. inversion H as [|? ? ? ? Hlt|? ? ? Hr]; subst;
          [left; exact Hlt|right; split; [reflexivity|exact Hr]].
  Qed.

  Lemma word_eqb_spec u v : word_eqb u v = true <-> u = v.
  Proof. apply (eqb_list_ok Nat.eqb eqb_nat_ok). Qed.

  Lemma lex_leb_spec u v : lex_leb u v = true <-> lex_le u v.
  Proof. unfold lex_leb, lex_le. rewrite orb_true_iff, lex_ltb_spec, word_eqb_spec. tauto. Qed.

  Lemma lex_lt_irrefl u : ~ lex_lt u u.
  Proof.
    induction u as [|a u IH]; intro H; inversion H as [|? ? ? ? Hlt|? ? ? Hr]; subst;
      [lia|exact (IH Hr)].
  Qed.

  Lemma lex_lt_trans u v w : lex_lt u v -> lex_lt v w -> lex_lt u w.
  Proof.
    intro H. revert w. induction H as [a v|a b u v Hab|a u v Huv IH]; intros w Hw.
    - inversion Hw; subst; constructor.
    - inversion Hw as [|? c ? w' Hbc|? ? w' Hr]; subst; apply lex_head; [lia|exact Hab].
    - inversion Hw as [|? c ? w' Hac|? ? w' Hr]; subst;
        [apply lex_head; exact Hac|apply lex_tail; apply IH; exact Hr].
  Qed.

  Lemma lex_lt_asym u v : lex_lt u v -> lex_lt v u -> False.
  Proof. intros H1 H2. exact (lex_lt_irrefl u (lex_lt_trans _ _ _ H1 H2)). Qed.

  Lemma lex_lt_total u v : lex_lt u v \/ u = v \/ lex_lt v u.
  Proof.
    revert v. induction u as [|a u IH]; intros [|b v].
    - right; left; reflexivity.
    - left; constructor.
    - right; right; constructor.
    - destruct (Nat.lt_trichotomy a b) as [H|[H|H]].
      + left; apply lex_head; exact H.
      + subst b. destruct (IH v) as [H1|[H1|H1]].
        * left; apply lex_tail; exact H1.
        * right; left; subst; reflexivity.
        * right; right; apply lex_tail; exact H1.
      + right; right; apply lex_head; exact H.
  Qed.

  (* a proper prefix is smaller than its extensions *)
  Lemma lex_lt_prefix u a v : lex_lt u (u ++ a :: v).
  Proof. induction u as [|b u IH]; simpl; [constructor|apply lex_tail; exact IH]. Qed.

  (* the first differing symbol decides *)
  Lemma lex_lt_diff p a b u v : a < b -> lex_lt (p ++ a :: u) (p ++ b :: v).
  Proof. intro H. induction p as [|c p IH]; simpl; [apply lex_head; exact H|apply lex_tail; exact IH]. Qed.

  (* ... and nothing else is: the inductive definition is the dictionary order *)
  Lemma lex_lt_iff u v :
    lex_lt u v <->
    (exists a s, v = u ++ a :: s) \/
    (exists p a b u' v', u = p ++ a :: u' /\ v = p ++ b :: v' /\ a < b).
  Proof.
    split.
    - intro H. induction H as [a v|a b u v Hab|a u v Huv IH].
      + left. exists a, v. reflexivity.
      + right. exists [], a, b, u, v. repeat split. exact Hab.
      + destruct IH as [[c [s E]]|[p [c [d [u' [v' [E1 [E2 Hcd]]]]]]]].
        * left. exists c, s. subst v. reflexivity.
        * right. exists (a :: p), c, d, u', v'. subst u v. repeat split. exact Hcd.
    - intros [[a [s E]]|[p [a [b [u' [v' [E1 [E2 Hab]]]]]]]]; subst.
      + apply lex_lt_prefix.
      + apply lex_lt_diff. exact Hab.
  Qed.

  Lemma lex_le_lt_trans u v w : lex_le u v -> lex_lt v w -> lex_lt u w.
  Proof. intros [H| ->] H2; [eapply lex_lt_trans; eassumption|exact H2]. Qed.

  Lemma lex_lt_nle u v : lex_lt u v -> ~ lex_le v u.
  Proof. intros H [H2|E]; [exact (lex_lt_asym _ _ H H2)|subst; exact (lex_lt_irrefl _ H)]. Qed.
End Order.

(* ---------- generic facts about strongly sorted lists ---------- *)
Section Sorted.
  Context {A : Type} (R : A -> A -> Prop).

  Lemma SSorted_app l1 l2 :
    StronglySorted R l1 -> StronglySorted R l2 -> (forall x y, In x l1 -> In y l2 -> R x y) ->
    StronglySorted R (l1 ++ l2).
  Proof.
    intros H1 H2 H. induction l1 as [|x l1 IH]; simpl; [exact H2|].
    inversion H1 as [|? ? Hs Hf]; subst. constructor.
    - apply IH; [exact Hs|]. intros a b Ha Hb. apply H; [right; exact Ha|exact Hb].
    - apply Forall_forall. intros y Hy. apply in_app_or in Hy. destruct Hy as [Hy|Hy].
      + rewrite Forall_forall in Hf. apply Hf. exact Hy.
      + apply H; [left; reflexivity|exact Hy].
  Qed.

  Lemma SSorted_filter f l : StronglySorted R l -> StronglySorted R (filter f l).
  Proof.
    intro H. induction H as [|x l Hs IH Hf]; simpl; [constructor|].
    destruct (f x); [|exact IH]. constructor; [exact IH|].
    apply Forall_forall. intros y Hy. apply filter_In in Hy. destruct Hy as [Hy _].
    rewrite Forall_forall in Hf. apply Hf. exact Hy.
  Qed.

  Lemma SSorted_NoDup l : (forall x, ~ R x x) -> StronglySorted R l -> NoDup l.
  Proof.
    intros Hirr H. induction H as [|x l Hs IH Hf]; constructor; [|exact IH].
    intro Hin. rewrite Forall_forall in Hf. exact (Hirr x (Hf x Hin)).
  Qed.
End Sorted.

Lemma SSorted_rev {A} (R : A -> A -> Prop) l :
  StronglySorted R l -> StronglySorted (fun x y => R y x) (rev l).
Proof.
  intro H. induction H as [|x l Hs IH Hf]; simpl; [constructor|].
  apply SSorted_app; [exact IH|constructor; constructor|].
  intros a b Ha Hb. destruct Hb as [<-|[]]. apply in_rev in Ha.
  rewrite Forall_forall in Hf. apply Hf. exact Ha.
Qed.

(* a strict order that is asymmetric admits at most one sorted listing of a given set *)
Lemma SSorted_ext {A} (R : A -> A -> Prop) l1 l2 :
  (forall x y, R x y -> R y x -> False) ->
  StronglySorted R l1 -> StronglySorted R l2 -> (forall x, In x l1 <-> In x l2) -> l1 = l2.
Proof.
  intro Has. revert l2. induction l1 as [|x l1 IH]; intros [|y l2] H1 H2 Hext.
  - reflexivity.
  - exfalso. apply (Hext y). left. reflexivity.
  - exfalso. apply (Hext x). left. reflexivity.
  - inversion H1 as [|? ? Hs1 Hf1]; subst. inversion H2 as [|? ? Hs2 Hf2]; subst.
    rewrite Forall_forall in Hf1, Hf2.
    assert (E : x = y).
    { destruct (Hext x) as [Hx _]. destruct (Hext y) as [_ Hy].
      specialize (Hx (or_introl eq_refl)). specialize (Hy (or_introl eq_refl)).
      destruct Hx as [Hx|Hx]; [congruence|]. destruct Hy as [Hy|Hy]; [congruence|].
      exfalso. exact (Has x y (Hf1 _ Hy) (Hf2 _ Hx)). }
    subst y. f_equal. apply IH; [exact Hs1|exact Hs2|].
    intro z. split; intro Hz.
    + destruct (Hext z) as [Hz' _]. destruct (Hz' (or_intror Hz)) as [E|E]; [|exact E].
      subst z. exfalso. exact (Has x x (Hf1 _ Hz) (Hf1 _ Hz)).
    + destruct (Hext z) as [_ Hz']. destruct (Hz' (or_intror Hz)) as [E|E]; [|exact E].
      subst z. exfalso. exact (Has x x (Hf2 _ Hz) (Hf2 _ Hz)).
Qed.

(* ---------- the enumeration ---------- *)
Section Enum.
  Lemma dict_order_In syms hi w :
    In w (dict_order syms hi) <-> length w <= hi /\ Forall (fun a => In a syms) w.
  Proof.
    revert w. induction hi as [|h IH]; intro w; simpl.
    - split.
      + intros [<-|[]]. split; [simpl; lia|constructor].
      + intros [Hl _]. destruct w; [left; reflexivity|simpl in Hl; lia].
    - rewrite in_flat_map. split.
      + intros [<-|[a [Ha Hw]]].
        * split; [simpl; lia|constructor].
        * apply in_map_iff in Hw. destruct Hw as [w' [<- Hw']]. apply IH in Hw'.
          destruct Hw' as [Hl Hf]. split; [simpl; lia|constructor; assumption].
      + intros [Hl Hf]. destruct w as [|a w']; [left; reflexivity|right].
        inversion Hf as [|? ? Ha Hf']; subst. exists a. split; [exact Ha|].
        apply in_map_iff. exists w'. split; [reflexivity|]. apply IH. simpl in Hl. split; [lia|exact Hf'].
  Qed.

  Lemma SSorted_map_cons a l : StronglySorted lex_lt l -> StronglySorted lex_lt (map (cons a) l).
  Proof.
    intro H. induction H as [|x l Hs IH Hf]; simpl; constructor; [exact IH|].
    apply Forall_forall. intros y Hy. apply in_map_iff in Hy. destruct Hy as [y' [<- Hy']].
    apply lex_tail. rewrite Forall_forall in Hf. apply Hf. exact Hy'.
  Qed.

  Lemma flat_sorted D l :
    StronglySorted lex_lt D -> ssorted l ->
    StronglySorted lex_lt (flat_map (fun a => map (cons a) D) l).
  Proof.
    intros HD. induction l as [|a l IH]; simpl; intro Hl; [constructor|].
    apply SSorted_app.
    - apply SSorted_map_cons. exact HD.
    - apply IH. eapply ssorted_tail. exact Hl.
    - intros x y Hx Hy. apply in_map_iff in Hx. destruct Hx as [x' [<- _]].
      apply in_flat_map in Hy. destruct Hy as [b [Hb Hy]].
      apply in_map_iff in Hy. destruct Hy as [y' [<- _]].
      apply lex_head. eapply ssorted_lt; eassumption.
  Qed.

  Lemma dict_order_sorted syms hi : ssorted syms -> StronglySorted lex_lt (dict_order syms hi).
  Proof.
    intro Hs. induction hi as [|h IH]; simpl.
    - constructor; constructor.
    - constructor.
      + apply flat_sorted; assumption.
      + apply Forall_forall. intros y Hy. apply in_flat_map in Hy. destruct Hy as [b [_ Hy]].
        apply in_map_iff in Hy. destruct Hy as [y' [<- _]]. constructor.
  Qed.

  Lemma dict_order_NoDup syms hi : ssorted syms -> NoDup (dict_order syms hi).
  Proof. intro Hs. apply (SSorted_NoDup lex_lt); [exact lex_lt_irrefl|apply dict_order_sorted; exact Hs]. Qed.
End Enum.
