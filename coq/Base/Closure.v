(* Generic worklist closure on a carrier with decidable equality:
   soundness, closedness and fuel sufficiency. *)
From Coq Require Import List Arith Bool Lia.
From AV Require Import Base.Util.
Import ListNotations.

Section Closure.
  Variable A : Type.
  Variable eqb : A -> A -> bool.
  Hypothesis eqb_spec : eqb_ok eqb.
  Variable succ : A -> list A.

  Definition mem (x : A) (l : list A) : bool := existsb (eqb x) l.

  Lemma mem_In x l : mem x l = true <-> In x l.
  Proof.
    unfold mem. rewrite existsb_exists. split.
    - intros [y [Hy He]]. apply eqb_spec in He. subst. exact Hy.
    - intros H. exists x. split; [exact H | apply eqb_spec; reflexivity].
  Qed.

  Lemma mem_false x l : mem x l = false <-> ~ In x l.
  Proof.
    rewrite <- mem_In. destruct (mem x l); split; intro H.
    - discriminate.
    - exfalso. apply H. reflexivity.
    - intro; discriminate.
    - reflexivity.
  Qed.

  Definition newof (visited : list A) (l : list A) :=
    fold_right (fun y acc => if mem y visited || mem y acc then acc else y :: acc) [] l.

  (* worklist: todo, visited.  Every element of todo is already in visited. *)
  Fixpoint bfs (fuel : nat) (todo visited : list A) : option (list A) :=
    match todo with
    | [] => Some visited
    | x :: rest =>
      match fuel with
      | 0 => None
      | S f => let new := newof visited (succ x) in bfs f (rest ++ new) (visited ++ new)
      end
    end.

  Definition closure (fuel : nat) (init : list A) : option (list A) :=
    let i := newof [] init in bfs fuel i i.

  Inductive reach (S0 : list A) : A -> Prop :=
  | reach_init x : In x S0 -> reach S0 x
  | reach_step x y : reach S0 x -> In y (succ x) -> reach S0 y.

  Lemma newof_In visited l y : In y (newof visited l) -> In y l /\ ~ In y visited.
  Proof.
    induction l as [|a l IH]; simpl; [tauto|].
    destruct (mem a visited || mem a (newof visited l)) eqn:E.
    - intros H. destruct (IH H). tauto.
    - intros [H|H].
      + subst. apply orb_false_iff in E. destruct E as [E _].
        split; [tauto|]. intro Hin. apply mem_In in Hin. congruence.
      + destruct (IH H). tauto.
  Qed.

  Lemma newof_complete visited l y : In y l -> In y visited \/ In y (newof visited l).
  Proof.
    induction l as [|a l IH]; simpl; [tauto|].
    intros [H|H].
    - subst. destruct (mem y visited) eqn:E1; simpl.
      + left. apply mem_In. exact E1.
      + destruct (mem y (newof visited l)) eqn:E2.
        * right. apply mem_In. exact E2.
        * right. left. reflexivity.
    - destruct (IH H) as [H1|H1]; [tauto|].
      destruct (mem a visited || mem a (newof visited l)); [tauto|]. right. right. exact H1.
  Qed.

  Lemma newof_NoDup visited l : NoDup (newof visited l).
  Proof.
    induction l as [|a l IH]; simpl; [constructor|].
    destruct (mem a visited || mem a (newof visited l)) eqn:E; [exact IH|].
    constructor; [|exact IH].
    apply orb_false_iff in E. destruct E as [_ E]. intro H.
    apply mem_In in H. congruence.
  Qed.

  Lemma bfs_sound S0 fuel : forall todo visited res,
      (forall x, In x visited -> reach S0 x) ->
      (forall x, In x todo -> In x visited) ->
      bfs fuel todo visited = Some res ->
      forall x, In x res -> reach S0 x.
  Proof.
    induction fuel as [|f IH]; intros todo visited res Hv Ht Hb x Hx.
    - destruct todo; simpl in Hb; [|discriminate]. inversion Hb; subst. auto.
    - destruct todo as [|t rest]; simpl in Hb.
      + inversion Hb; subst. auto.
      + eapply IH; [| |exact Hb|exact Hx].
        * intros y Hy. apply in_app_or in Hy. destruct Hy as [Hy|Hy]; [auto|].
          apply newof_In in Hy. destruct Hy as [Hy _].
          eapply reach_step; [|exact Hy]. apply Hv. apply Ht. left. reflexivity.
        * intros y Hy. apply in_app_or in Hy. apply in_or_app.
          destruct Hy as [Hy|Hy]; [left; apply Ht; right; exact Hy | right; exact Hy].
  Qed.

  Lemma bfs_closed fuel : forall todo visited res,
      (forall x, In x todo -> In x visited) ->
      (forall x y, In x visited -> ~ In x todo -> In y (succ x) -> In y visited) ->
      bfs fuel todo visited = Some res ->
      (forall x, In x visited -> In x res) /\
      (forall x y, In x res -> In y (succ x) -> In y res).
  Proof.
    induction fuel as [|f IH]; intros todo visited res Ht Hc Hb.
    - destruct todo; simpl in Hb; [|discriminate]. inversion Hb; subst.
      split; [auto|]. intros x y Hx Hy. eapply Hc; eauto.
    - destruct todo as [|t rest]; simpl in Hb.
      + inversion Hb; subst. split; [auto|]. intros x y Hx Hy. eapply Hc; eauto.
      + apply IH in Hb.
        * destruct Hb as [H1 H2]. split; [|exact H2].
          intros x Hx. apply H1. apply in_or_app. left. exact Hx.
        * intros y Hy. apply in_app_or in Hy. apply in_or_app.
          destruct Hy as [Hy|Hy]; [left; apply Ht; right; exact Hy | right; exact Hy].
        * intros x y Hx Hnt Hy.
          apply in_or_app.
          apply in_app_or in Hx. destruct Hx as [Hx|Hx].
          -- destruct (eqb x t) eqn:Ext.
             ++ apply eqb_spec in Ext. subst x.
                destruct (newof_complete visited (succ t) y Hy); tauto.
             ++ left. eapply Hc; [exact Hx| |exact Hy].
                intros [Heq|Hin].
                ** subst. rewrite (eqb_ok_refl _ eqb_spec) in Ext. discriminate.
                ** apply Hnt. apply in_or_app. left. exact Hin.
          -- exfalso. apply Hnt. apply in_or_app. right. exact Hx.
  Qed.

  Lemma NoDup_app_disjoint (l m : list A) :
    NoDup l -> NoDup m -> (forall y, In y m -> ~ In y l) -> NoDup (l ++ m).
  Proof.
    intros Hl Hm Hd. induction l as [|a l IHl]; simpl; [exact Hm|].
    inversion Hl; subst. constructor.
    - intro H. apply in_app_or in H. destruct H as [H|H]; [tauto|].
      apply (Hd a H). left. reflexivity.
    - apply IHl; [assumption|]. intros y Hy Hin. apply (Hd y Hy). right. exact Hin.
  Qed.

  Lemma bfs_NoDup fuel : forall todo visited res,
      NoDup visited -> bfs fuel todo visited = Some res -> NoDup res.
  Proof.
    induction fuel as [|f IH]; intros todo visited res Hnd Hb.
    - destruct todo; simpl in Hb; [|discriminate]. inversion Hb; subst. exact Hnd.
    - destruct todo as [|t rest]; simpl in Hb.
      + inversion Hb; subst. exact Hnd.
      + eapply IH; [|exact Hb]. apply NoDup_app_disjoint; [exact Hnd|apply newof_NoDup|].
        intros y Hy. apply newof_In in Hy. tauto.
  Qed.

  Section FuelBound.
    Variable U : list A.
    Hypothesis succ_in_U : forall x y, In x U -> In y (succ x) -> In y U.

    Lemma bfs_fuel : forall fuel todo processed,
        NoDup (processed ++ todo) -> incl (processed ++ todo) U ->
        length U < length processed + fuel ->
        bfs fuel todo (processed ++ todo) <> None.
    Proof.
      induction fuel as [|f IH]; intros todo processed Hnd Hin Hlen.
      - destruct todo as [|t rest]; simpl; [discriminate|].
        exfalso. pose proof (NoDup_incl_length Hnd Hin) as H.
        rewrite app_length in H. simpl in H. lia.
      - destruct todo as [|t rest]; simpl; [discriminate|].
        set (new := newof (processed ++ t :: rest) (succ t)).
        replace ((processed ++ t :: rest) ++ new) with ((processed ++ [t]) ++ (rest ++ new))
          by (rewrite <- !app_assoc; reflexivity).
        apply IH.
        + replace ((processed ++ [t]) ++ rest ++ new) with ((processed ++ t :: rest) ++ new)
            by (rewrite <- !app_assoc; reflexivity).
          assert (Hn : NoDup new) by apply newof_NoDup.
          assert (Hd : forall y, In y new -> ~ In y (processed ++ t :: rest)).
          { intros y Hy. unfold new in Hy. apply newof_In in Hy. tauto. }
          apply NoDup_app_disjoint; assumption.
        + replace ((processed ++ [t]) ++ rest ++ new) with ((processed ++ t :: rest) ++ new)
            by (rewrite <- !app_assoc; reflexivity).
          intros y Hy. apply in_app_or in Hy. destruct Hy as [Hy|Hy]; [apply Hin; exact Hy|].
          apply newof_In in Hy. destruct Hy as [Hy _].
          eapply succ_in_U; [|exact Hy]. apply Hin. apply in_or_app. right. left. reflexivity.
        + rewrite app_length. simpl. lia.
    Qed.
  End FuelBound.

  (* ---- the packaged interface ---- *)
  Lemma newof_nil_In l y : In y (newof [] l) <-> In y l.
  Proof.
    split.
    - intro H. apply newof_In in H. tauto.
    - intro H. destruct (newof_complete [] l y H) as [[]|H']. exact H'.
  Qed.

  Theorem closure_sound fuel init res :
    closure fuel init = Some res -> forall x, In x res -> reach init x.
  Proof.
    unfold closure. intros Hb x Hx.
    eapply bfs_sound; [| |exact Hb|exact Hx].
    - intros y Hy. apply reach_init. apply newof_nil_In. exact Hy.
    - auto.
  Qed.

  Theorem closure_complete fuel init res :
    closure fuel init = Some res -> forall x, reach init x -> In x res.
  Proof.
    unfold closure. intros Hb.
    apply bfs_closed in Hb.
    - destruct Hb as [H1 H2]. intros x Hr. induction Hr as [x Hx|x y Hr IH Hy].
      + apply H1. apply newof_nil_In. exact Hx.
      + eapply H2; eassumption.
    - auto.
    - intros x y Hx Hnt. contradiction.
  Qed.

  Theorem closure_NoDup fuel init res : closure fuel init = Some res -> NoDup res.
  Proof. unfold closure. intro H. eapply bfs_NoDup; [|exact H]. apply newof_NoDup. Qed.

  Theorem closure_fuel (U : list A) fuel init :
    (forall x y, In x U -> In y (succ x) -> In y U) ->
    incl init U -> length U < fuel -> closure fuel init <> None.
  Proof.
    intros HU Hi Hl. unfold closure.
    apply (bfs_fuel U HU fuel (newof [] init) []); simpl.
    - apply newof_NoDup.
    - intros y Hy. apply Hi. apply newof_nil_In. exact Hy.
    - exact Hl.
  Qed.
End Closure.

Arguments mem {A} eqb x l.
Arguments bfs {A} eqb succ fuel todo visited.
Arguments closure {A} eqb succ fuel init.
Arguments reach {A} succ S0 x.

Section ClosureHead.
  Variable A : Type.
  Variable eqb : A -> A -> bool.
  Variable succ : A -> list A.

  Lemma bfs_prefix fuel : forall todo visited res,
      bfs eqb succ fuel todo visited = Some res -> exists rest, res = visited ++ rest.
  Proof.
    induction fuel as [|f IH]; intros todo visited res Hb.
    - destruct todo; simpl in Hb; [|discriminate]. inversion Hb. exists []. rewrite app_nil_r. reflexivity.
    - destruct todo as [|t r]; simpl in Hb.
      + inversion Hb. exists []. rewrite app_nil_r. reflexivity.
      + apply IH in Hb. destruct Hb as [rest ->]. rewrite <- app_assoc. eauto.
  Qed.

  Lemma closure_head fuel x res : closure eqb succ fuel [x] = Some res -> exists rest, res = x :: rest.
  Proof.
    unfold closure. simpl. intro H. apply bfs_prefix in H. destruct H as [rest ->]. exists rest. reflexivity.
  Qed.
End ClosureHead.
