(* Shared small definitions: result type, association lists, decidable
   equalities with their specs.  Stdlib only. *)
From Coq Require Import List Arith Bool Lia.
Import ListNotations.

(* Python-visible outcomes: a value, or one of a small enum of error kinds.
   The harness maps Python exceptions to the same enum (numbers on the wire). *)
Inductive err :=
| Reject      (* automata.base.exceptions.RejectionException *)
| KeyErr      (* KeyError *)
| IndexErr    (* IndexError *)
| Invalid (rule : nat) (* a documented validation exception; rule numbers in Model/Validate.v *)
| Mismatch    (* SymbolMismatchError *)
| Infinite    (* InfiniteLanguageException *)
| Empty       (* EmptyLanguageException *)
| ValueErr    (* ValueError *)
| Fuel        (* model ran out of fuel: never a Python outcome *)
| OtherErr (code : nat).

Inductive res (A : Type) := Ok (x : A) | Err (e : err).
Arguments Ok {A} x.
Arguments Err {A} e.

Definition bind {A B} (r : res A) (f : A -> res B) : res B :=
  match r with Ok x => f x | Err e => Err e end.

Definition err_code (e : err) : nat :=
  match e with
  | Reject => 1 | KeyErr => 2 | IndexErr => 3 | Invalid r => 100 + r
  | Mismatch => 5 | Infinite => 6 | Empty => 7 | ValueErr => 8 | Fuel => 9
  | OtherErr c => 50 + c
  end.

(* ---- decidable equalities ---- *)
Definition eqb_opt {A} (e : A -> A -> bool) (x y : option A) : bool :=
  match x, y with
  | Some a, Some b => e a b
  | None, None => true
  | _, _ => false
  end.

Definition eqb_pair {A B} (ea : A -> A -> bool) (eb : B -> B -> bool)
           (x y : A * B) : bool := ea (fst x) (fst y) && eb (snd x) (snd y).

Fixpoint eqb_list {A} (e : A -> A -> bool) (x y : list A) : bool :=
  match x, y with
  | [], [] => true
  | a :: x', b :: y' => e a b && eqb_list e x' y'
  | _, _ => false
  end.

Definition eqb_ok {A} (e : A -> A -> bool) : Prop := forall x y, e x y = true <-> x = y.

Lemma eqb_nat_ok : eqb_ok Nat.eqb.
Proof. intros x y. apply Nat.eqb_eq. Qed.

Lemma eqb_bool_ok : eqb_ok Bool.eqb.
Proof. intros x y. apply Bool.eqb_true_iff. Qed.

Lemma eqb_opt_ok {A} (e : A -> A -> bool) : eqb_ok e -> eqb_ok (eqb_opt e).
Proof.
  intros H [a|] [b|]; simpl; split; intro E; try discriminate; try reflexivity.
  - apply H in E. congruence.
  - inversion E; subst. apply H. reflexivity.
Qed.

Lemma eqb_pair_ok {A B} (ea : A -> A -> bool) (eb : B -> B -> bool) :
  eqb_ok ea -> eqb_ok eb -> eqb_ok (eqb_pair ea eb).
Proof.
  intros Ha Hb [a b] [c d]; unfold eqb_pair; simpl. rewrite andb_true_iff.
  rewrite (Ha a c), (Hb b d). split.
  - intros [-> ->]. reflexivity.
  - intro E. inversion E. auto.
Qed.

Lemma eqb_list_ok {A} (e : A -> A -> bool) : eqb_ok e -> eqb_ok (eqb_list e).
Proof.
  intros H x. induction x as [|a x IH]; intros [|b y]; simpl; split; intro E;
    try discriminate; try reflexivity.
  - apply andb_true_iff in E. destruct E as [E1 E2].
    apply H in E1. apply IH in E2. congruence.
  - inversion E; subst. apply andb_true_iff. split; [apply H|apply IH]; reflexivity.
Qed.

Lemma eqb_ok_refl {A} (e : A -> A -> bool) : eqb_ok e -> forall x, e x x = true.
Proof. intros H x. apply H. reflexivity. Qed.

Lemma eqb_ok_false {A} (e : A -> A -> bool) : eqb_ok e -> forall x y, e x y = false <-> x <> y.
Proof.
  intros H x y. split.
  - intros E Heq. apply H in Heq. congruence.
  - intro N. destruct (e x y) eqn:E; [|reflexivity]. apply H in E. contradiction.
Qed.

(* ---- membership and association lists over nat keys ---- *)
Definition memb (x : nat) (l : list nat) : bool := existsb (Nat.eqb x) l.

Lemma memb_In x l : memb x l = true <-> In x l.
Proof.
  unfold memb. rewrite existsb_exists. split.
  - intros [y [Hy E]]. apply Nat.eqb_eq in E. subst. exact Hy.
  - intro H. exists x. split; [exact H|apply Nat.eqb_refl].
Qed.

Lemma memb_false x l : memb x l = false <-> ~ In x l.
Proof.
  rewrite <- memb_In. destruct (memb x l); split; intro H.
  - discriminate.
  - exfalso. apply H. reflexivity.
  - intro; discriminate.
  - reflexivity.
Qed.

Fixpoint assoc {B} (k : nat) (l : list (nat * B)) : option B :=
  match l with
  | [] => None
  | (k', v) :: r => if Nat.eqb k k' then Some v else assoc k r
  end.

Lemma assoc_In {B} k (l : list (nat * B)) v : assoc k l = Some v -> In (k, v) l.
Proof.
  induction l as [|[k' v'] r IH]; simpl; [discriminate|].
  destruct (Nat.eqb k k') eqn:E.
  - apply Nat.eqb_eq in E. subst. intro H. inversion H. left. reflexivity.
  - intro H. right. apply IH. exact H.
Qed.

Lemma assoc_None {B} k (l : list (nat * B)) : assoc k l = None <-> ~ In k (map fst l).
Proof.
  induction l as [|[k' v'] r IH]; simpl; [tauto|].
  destruct (Nat.eqb k k') eqn:E.
  - apply Nat.eqb_eq in E. subst. split; [discriminate|]. intro H. exfalso. apply H. left. reflexivity.
  - apply Nat.eqb_neq in E. rewrite IH. split.
    + intros H [H1|H1]; [congruence|tauto].
    + intros H H1. apply H. right. exact H1.
Qed.

Lemma assoc_Some_key {B} k (l : list (nat * B)) v : assoc k l = Some v -> In k (map fst l).
Proof. intro H. apply assoc_In in H. apply in_map_iff. exists (k, v). split; [reflexivity|exact H]. Qed.

Lemma assoc_NoDup {B} k v (l : list (nat * B)) :
  NoDup (map fst l) -> In (k, v) l -> assoc k l = Some v.
Proof.
  induction l as [|[k' v'] r IH]; simpl; [tauto|].
  intros Hnd [H|H].
  - inversion H; subst. rewrite Nat.eqb_refl. reflexivity.
  - inversion Hnd; subst. destruct (Nat.eqb k k') eqn:E.
    + apply Nat.eqb_eq in E. subst. exfalso. apply H2. apply in_map_iff. exists (k', v). split; [reflexivity|exact H].
    + apply IH; assumption.
Qed.

(* duplicate-free test on nat lists *)
Fixpoint nodupb (l : list nat) : bool :=
  match l with
  | [] => true
  | x :: r => negb (memb x r) && nodupb r
  end.

Lemma nodupb_NoDup l : nodupb l = true <-> NoDup l.
Proof.
  induction l as [|x r IH]; simpl.
  - split; [constructor|reflexivity].
  - rewrite andb_true_iff, negb_true_iff, memb_false, IH. split.
    + intros [H1 H2]. constructor; assumption.
    + intro H. inversion H; subst. split; assumption.
Qed.

Definition subsetb (l m : list nat) : bool := forallb (fun x => memb x m) l.

Lemma subsetb_incl l m : subsetb l m = true <-> incl l m.
Proof.
  unfold subsetb. rewrite forallb_forall. split.
  - intros H x Hx. apply memb_In. apply H. exact Hx.
  - intros H x Hx. apply memb_In. apply H. exact Hx.
Qed.

(* sorted duplicate-free insertion: canonical finite sets of nat *)
Fixpoint set_add (x : nat) (l : list nat) : list nat :=
  match l with
  | [] => [x]
  | y :: r => if Nat.ltb x y then x :: l else if Nat.eqb x y then l else y :: set_add x r
  end.

Definition set_of (l : list nat) : list nat := fold_right set_add [] l.
Definition set_union (a b : list nat) : list nat := fold_right set_add b a.

Lemma set_add_In x y l : In y (set_add x l) <-> y = x \/ In y l.
Proof.
  induction l as [|z r IH]; simpl.
  - split; [intros [H|[]]; auto | intros [H|[]]; auto].
  - destruct (Nat.ltb x z) eqn:E1; simpl; [split; intros [H|H]; auto|].
    destruct (Nat.eqb x z) eqn:E2; simpl.
    + apply Nat.eqb_eq in E2. subst. split; [auto|]. intros [H|H]; [subst; auto|exact H].
    + rewrite IH. split; [intros [H|[H|H]]; auto | intros [H|[H|H]]; auto].
Qed.

Lemma set_of_In y l : In y (set_of l) <-> In y l.
Proof.
  induction l as [|x r IH]; simpl; [tauto|]. rewrite set_add_In, IH. split; intros [H|H]; auto.
Qed.

Lemma set_union_In y a b : In y (set_union a b) <-> In y a \/ In y b.
Proof.
  unfold set_union. induction a as [|x r IH]; simpl; [tauto|].
  rewrite set_add_In, IH. split; [intros [H|[H|H]]; auto | intros [[H|H]|H]; auto].
Qed.

Definition sortedb (l : list nat) : bool :=
  (fix go l := match l with
               | x :: ((y :: _) as r) => Nat.ltb x y && go r
               | _ => true
               end) l.

Inductive ssorted : list nat -> Prop :=
| ss_nil : ssorted []
| ss_one x : ssorted [x]
| ss_cons x y r : x < y -> ssorted (y :: r) -> ssorted (x :: y :: r).

Lemma ssorted_tail x l : ssorted (x :: l) -> ssorted l.
Proof. intro H. inversion H; subst; [constructor|assumption]. Qed.

Lemma ssorted_lt x l : ssorted (x :: l) -> forall y, In y l -> x < y.
Proof.
  revert x. induction l as [|z r IH]; intros x H y Hy; [destruct Hy|].
  inversion H; subst. destruct Hy as [Hy|Hy]; [subst; assumption|].
  transitivity z; [assumption|]. apply IH; assumption.
Qed.

Lemma set_add_sorted x l : ssorted l -> ssorted (set_add x l).
Proof.
  induction l as [|y r IH]; simpl; intro H; [constructor|].
  destruct (Nat.ltb x y) eqn:E1.
  - apply Nat.ltb_lt in E1. constructor; assumption.
  - destruct (Nat.eqb x y) eqn:E2; [exact H|].
    apply Nat.ltb_ge in E1. apply Nat.eqb_neq in E2.
    assert (Hyx : y < x) by lia.
    pose proof (IH (ssorted_tail _ _ H)) as IH'.
    destruct r as [|z r'].
    + simpl. constructor; [exact Hyx|constructor].
    + simpl in *. inversion H; subst.
      destruct (Nat.ltb x z) eqn:E3.
      * constructor; [exact Hyx|exact IH'].
      * destruct (Nat.eqb x z) eqn:E4; constructor; assumption.
Qed.

Lemma set_of_sorted l : ssorted (set_of l).
Proof. induction l as [|x r IH]; simpl; [constructor|apply set_add_sorted; exact IH]. Qed.

Lemma ssorted_ext l m : ssorted l -> ssorted m -> (forall x, In x l <-> In x m) -> l = m.
Proof.
  revert m. induction l as [|x l IH]; intros [|y m] Hl Hm Hext.
  - reflexivity.
  - exfalso. apply (Hext y). left. reflexivity.
  - exfalso. apply (Hext x). left. reflexivity.
  - assert (x = y).
    { destruct (Hext x) as [H1 _]. destruct (Hext y) as [_ H2].
      specialize (H1 (or_introl eq_refl)). specialize (H2 (or_introl eq_refl)).
      destruct H1 as [H1|H1]; [congruence|]. destruct H2 as [H2|H2]; [congruence|].
      pose proof (ssorted_lt _ _ Hl _ H2). pose proof (ssorted_lt _ _ Hm _ H1). lia. }
    subst y. f_equal. apply IH; [eapply ssorted_tail; eassumption|eapply ssorted_tail; eassumption|].
    intro z. split; intro Hz.
    + destruct (Hext z) as [H1 _]. destruct (H1 (or_intror Hz)) as [E|E]; [|exact E].
      subst. pose proof (ssorted_lt _ _ Hl _ Hz). lia.
    + destruct (Hext z) as [_ H2]. destruct (H2 (or_intror Hz)) as [E|E]; [|exact E].
      subst. pose proof (ssorted_lt _ _ Hm _ Hz). lia.
Qed.
