(* Keyed worklist closure: items carry extra data (e.g. an access word) and are
   identified by a key (e.g. the state).  Breadth-first, first discovery wins. *)
From Coq Require Import List Arith Bool Lia.
From AV Require Import Base.Util.
Import ListNotations.

Section KClosure.
  Variables A K : Type.
  Variable key : A -> K.
  Variable keqb : K -> K -> bool.
  Hypothesis keqb_spec : eqb_ok keqb.
  Variable succ : A -> list A.

  Definition kmem (k : K) (l : list A) : bool := existsb (fun y => keqb k (key y)) l.

  Lemma kmem_In k l : kmem k l = true <-> exists y, In y l /\ key y = k.
  Proof.
    unfold kmem. rewrite existsb_exists. split.
    - intros [y [Hy He]]. apply keqb_spec in He. eauto.
    - intros [y [Hy He]]. exists y. split; [exact Hy|]. apply keqb_spec. auto.
  Qed.

  Lemma kmem_false k l : kmem k l = false <-> ~ exists y, In y l /\ key y = k.
  Proof.
    rewrite <- kmem_In. destruct (kmem k l); split; intro H.
    - discriminate.
    - exfalso. apply H. reflexivity.
    - intro; discriminate.
    - reflexivity.
  Qed.

  Definition knewof (visited : list A) (l : list A) :=
    fold_right (fun y acc => if kmem (key y) visited || kmem (key y) acc then acc else y :: acc) [] l.

  Fixpoint kbfs (fuel : nat) (todo visited : list A) : option (list A) :=
    match todo with
    | [] => Some visited
    | x :: rest =>
      match fuel with
      | 0 => None
      | S f => let new := knewof visited (succ x) in kbfs f (rest ++ new) (visited ++ new)
      end
    end.

  Definition kclosure (fuel : nat) (init : list A) : option (list A) :=
    let i := knewof [] init in kbfs fuel i i.

  Inductive kreach (S0 : list A) : A -> Prop :=
  | kreach_init x : In x S0 -> kreach S0 x
  | kreach_step x y : kreach S0 x -> In y (succ x) -> kreach S0 y.

  Definition has_key (l : list A) (k : K) : Prop := exists z, In z l /\ key z = k.

  Lemma knewof_In visited l y : In y (knewof visited l) -> In y l /\ ~ has_key visited (key y).
  Proof.
    induction l as [|a l IH]; simpl; [tauto|].
    destruct (kmem (key a) visited || kmem (key a) (knewof visited l)) eqn:E.
    - intros H. destruct (IH H). tauto.
    - intros [H|H].
      + subst. apply orb_false_iff in E. destruct E as [E _].
        split; [tauto|]. apply kmem_false. exact E.
      + destruct (IH H). tauto.
  Qed.

  Lemma knewof_complete visited l y :
    In y l -> has_key visited (key y) \/ has_key (knewof visited l) (key y).
  Proof.
    induction l as [|a l IH]; simpl; [tauto|].
    intros [H|H].
    - subst. destruct (kmem (key y) visited) eqn:E1; simpl.
      + left. apply kmem_In. exact E1.
      + destruct (kmem (key y) (knewof visited l)) eqn:E2.
        * right. apply kmem_In. exact E2.
        * right. exists y. split; [left; reflexivity|reflexivity].
    - destruct (IH H) as [H1|[z [Hz Hk]]]; [tauto|].
      right. exists z. split; [|exact Hk].
      destruct (kmem (key a) visited || kmem (key a) (knewof visited l)); [exact Hz|right; exact Hz].
  Qed.

  Lemma knewof_keys_NoDup visited l : NoDup (map key (knewof visited l)).
  Proof.
    induction l as [|a l IH]; simpl; [constructor|].
    destruct (kmem (key a) visited || kmem (key a) (knewof visited l)) eqn:E; [exact IH|].
    simpl. constructor; [|exact IH].
    apply orb_false_iff in E. destruct E as [_ E]. intro H.
    apply kmem_false in E. apply E. apply in_map_iff in H. destruct H as [z [Hz1 Hz2]]. exists z. auto.
  Qed.

  Lemma kbfs_sound S0 fuel : forall todo visited res,
      (forall x, In x visited -> kreach S0 x) ->
      (forall x, In x todo -> In x visited) ->
      kbfs fuel todo visited = Some res ->
      forall x, In x res -> kreach S0 x.
  Proof.
    induction fuel as [|f IH]; intros todo visited res Hv Ht Hb x Hx.
    - destruct todo; simpl in Hb; [|discriminate]. inversion Hb; subst. auto.
    - destruct todo as [|t rest]; simpl in Hb.
      + inversion Hb; subst. auto.
      + eapply IH; [| |exact Hb|exact Hx].
        * intros y Hy. apply in_app_or in Hy. destruct Hy as [Hy|Hy]; [auto|].
          apply knewof_In in Hy. destruct Hy as [Hy _].
          eapply kreach_step; [|exact Hy]. apply Hv. apply Ht. left. reflexivity.
        * intros y Hy. apply in_app_or in Hy. apply in_or_app.
          destruct Hy as [Hy|Hy]; [left; apply Ht; right; exact Hy | right; exact Hy].
  Qed.

  (* closedness up to keys; visited is kept as processed ++ todo *)
  Lemma kbfs_closed fuel : forall todo processed res,
      (forall x y, In x processed -> In y (succ x) -> has_key (processed ++ todo) (key y)) ->
      kbfs fuel todo (processed ++ todo) = Some res ->
      (forall x, In x (processed ++ todo) -> In x res) /\
      (forall x y, In x res -> In y (succ x) -> has_key res (key y)).
  Proof.
    induction fuel as [|f IH]; intros todo processed res Hc Hb.
    - destruct todo; simpl in Hb; [|discriminate]. inversion Hb; subst.
      split; [auto|]. rewrite app_nil_r in *. exact Hc.
    - destruct todo as [|t rest]; simpl in Hb.
      + inversion Hb; subst. split; [auto|]. rewrite app_nil_r in *. exact Hc.
      + set (new := knewof (processed ++ t :: rest) (succ t)) in *.
        replace ((processed ++ t :: rest) ++ new) with ((processed ++ [t]) ++ (rest ++ new)) in Hb
          by (rewrite <- !app_assoc; reflexivity).
        apply IH in Hb.
        * destruct Hb as [H1 H2]. split; [|exact H2].
          intros x Hx. apply H1.
          replace ((processed ++ [t]) ++ rest ++ new) with ((processed ++ t :: rest) ++ new)
            by (rewrite <- !app_assoc; reflexivity).
          apply in_or_app. left. exact Hx.
        * intros x y Hx Hy.
          replace ((processed ++ [t]) ++ rest ++ new) with ((processed ++ t :: rest) ++ new)
            by (rewrite <- !app_assoc; reflexivity).
          apply in_app_or in Hx. destruct Hx as [Hx|[<-|[]]].
          -- destruct (Hc x y Hx Hy) as [z [Hz Hk]]. exists z. split; [apply in_or_app; left; exact Hz|exact Hk].
          -- destruct (knewof_complete (processed ++ t :: rest) (succ t) y Hy) as [[z [Hz Hk]]|[z [Hz Hk]]].
             ++ exists z. split; [apply in_or_app; left; exact Hz|exact Hk].
             ++ exists z. split; [apply in_or_app; right; exact Hz|exact Hk].
  Qed.

  Lemma NoDup_app_disjoint' {B} (l m : list B) :
    NoDup l -> NoDup m -> (forall y, In y m -> ~ In y l) -> NoDup (l ++ m).
  Proof.
    intros Hl Hm Hd. induction l as [|a l IHl]; simpl; [exact Hm|].
    inversion Hl; subst. constructor.
    - intro H. apply in_app_or in H. destruct H as [H|H]; [tauto|].
      apply (Hd a H). left. reflexivity.
    - apply IHl; [assumption|]. intros y Hy Hin. apply (Hd y Hy). right. exact Hin.
  Qed.

  Lemma keys_NoDup_step visited l :
    NoDup (map key visited) -> NoDup (map key (visited ++ knewof visited l)).
  Proof.
    intro H. rewrite map_app. apply NoDup_app_disjoint'; [exact H|apply knewof_keys_NoDup|].
    intros k Hk Hin. apply in_map_iff in Hk. destruct Hk as [y [<- Hy]].
    apply knewof_In in Hy. destruct Hy as [_ Hy]. apply Hy.
    apply in_map_iff in Hin. destruct Hin as [z [Hz1 Hz2]]. exists z. auto.
  Qed.

  Lemma kbfs_keys_NoDup fuel : forall todo visited res,
      NoDup (map key visited) -> kbfs fuel todo visited = Some res -> NoDup (map key res).
  Proof.
    induction fuel as [|f IH]; intros todo visited res Hnd Hb.
    - destruct todo; simpl in Hb; [|discriminate]. inversion Hb; subst. exact Hnd.
    - destruct todo as [|t rest]; simpl in Hb.
      + inversion Hb; subst. exact Hnd.
      + eapply IH; [|exact Hb]. apply keys_NoDup_step. exact Hnd.
  Qed.

  Section FuelBound.
    Variable U : list K.
    Variable good : A -> Prop.
    Hypothesis good_key : forall x, good x -> In (key x) U.
    Hypothesis good_succ : forall x y, good x -> In y (succ x) -> good y.

    Lemma kbfs_fuel : forall fuel todo processed,
        NoDup (map key (processed ++ todo)) -> (forall x, In x (processed ++ todo) -> good x) ->
        length U < length processed + fuel ->
        kbfs fuel todo (processed ++ todo) <> None.
    Proof.
      induction fuel as [|f IH]; intros todo processed Hnd Hin Hlen.
      - destruct todo as [|t rest]; simpl; [discriminate|].
        exfalso.
        assert (Hi : incl (map key (processed ++ t :: rest)) U).
        { intros k Hk. apply in_map_iff in Hk. destruct Hk as [x [<- Hx]]. apply good_key. apply Hin. exact Hx. }
        pose proof (NoDup_incl_length Hnd Hi) as H.
        rewrite map_length, app_length in H. simpl in H. lia.
      - destruct todo as [|t rest]; simpl; [discriminate|].
        set (new := knewof (processed ++ t :: rest) (succ t)).
        replace ((processed ++ t :: rest) ++ new) with ((processed ++ [t]) ++ (rest ++ new))
          by (rewrite <- !app_assoc; reflexivity).
        apply IH.
        + replace ((processed ++ [t]) ++ rest ++ new) with ((processed ++ t :: rest) ++ new)
            by (rewrite <- !app_assoc; reflexivity).
          apply keys_NoDup_step. exact Hnd.
        + replace ((processed ++ [t]) ++ rest ++ new) with ((processed ++ t :: rest) ++ new)
            by (rewrite <- !app_assoc; reflexivity).
          intros y Hy. apply in_app_or in Hy. destruct Hy as [Hy|Hy]; [apply Hin; exact Hy|].
          apply knewof_In in Hy. destruct Hy as [Hy _].
          eapply good_succ; [|exact Hy]. apply Hin. apply in_or_app. right. left. reflexivity.
        + rewrite app_length. simpl. lia.
    Qed.
  End FuelBound.

  (* ---- packaged interface ---- *)
  Theorem kclosure_sound fuel init res :
    kclosure fuel init = Some res -> forall x, In x res -> kreach init x.
  Proof.
    unfold kclosure. intros Hb x Hx.
    eapply kbfs_sound; [| |exact Hb|exact Hx].
    - intros y Hy. apply kreach_init. apply knewof_In in Hy. tauto.
    - auto.
  Qed.

  (* every invariant of the item graph holds of every returned item *)
  Theorem kclosure_inv (P : A -> Prop) fuel init res :
    (forall x, In x init -> P x) -> (forall x y, P x -> In y (succ x) -> P y) ->
    kclosure fuel init = Some res -> forall x, In x res -> P x.
  Proof.
    intros H0 Hs Hb x Hx. pose proof (kclosure_sound _ _ _ Hb x Hx) as Hr. clear Hx.
    induction Hr as [y Hy|y z Hr IH Hz]; [apply H0; exact Hy|]. eapply Hs; [|exact Hz].
    exact IH.
  Qed.

  (* successors depend on the key only (up to keys) *)
  Definition succ_compat : Prop :=
    forall x x', key x = key x' -> forall y, In y (succ x) -> exists y', In y' (succ x') /\ key y' = key y.

  Theorem kclosure_complete fuel init res :
    succ_compat -> kclosure fuel init = Some res ->
    forall x, kreach init x -> has_key res (key x).
  Proof.
    unfold kclosure. intros Hcompat Hb.
    pose proof (kbfs_closed fuel (knewof [] init) [] res) as Hc. simpl in Hc.
    destruct (Hc (fun x y (H : False) => match H with end) Hb) as [H1 H2].
    intros x Hr. induction Hr as [x Hx|x y Hr IH Hy].
    - destruct (knewof_complete [] init x Hx) as [[z [[] _]]|[z [Hz Hk]]].
      exists z. split; [apply H1; exact Hz|exact Hk].
    - destruct IH as [z [Hz Hk]].
      destruct (Hcompat x z (eq_sym Hk) y Hy) as [y' [Hy' Hk']].
      destruct (H2 z y' Hz Hy') as [z' [Hz' Hk'']]. exists z'. split; [exact Hz'|congruence].
  Qed.

  Theorem kclosure_keys_NoDup fuel init res : kclosure fuel init = Some res -> NoDup (map key res).
  Proof. unfold kclosure. intro H. eapply kbfs_keys_NoDup; [|exact H]. apply knewof_keys_NoDup. Qed.

  Theorem kclosure_fuel (U : list K) (good : A -> Prop) fuel init :
    (forall x, good x -> In (key x) U) -> (forall x y, good x -> In y (succ x) -> good y) ->
    (forall x, In x init -> good x) -> length U < fuel -> kclosure fuel init <> None.
  Proof.
    intros HU Hs Hi Hl. unfold kclosure.
    apply (kbfs_fuel U good HU Hs fuel (knewof [] init) []); simpl.
    - apply knewof_keys_NoDup.
    - intros y Hy. apply Hi. apply knewof_In in Hy. tauto.
    - exact Hl.
  Qed.
End KClosure.

Arguments kclosure {A K} key keqb succ fuel init.
Arguments kreach {A} succ S0 x.
Arguments has_key {A K} key l k.
Arguments succ_compat {A K} key succ.
