(* Wire format between the Python harness and the extracted model:
   itree := I n | L [t1; ...; tk], printed as  n  and  [t1,...,tk]. *)
From Coq Require Import List Arith NArith Bool.
From AV Require Import Base.Util.
Import ListNotations.

Inductive itree := I (n : N) | L (l : list itree).

Definition In_ (n : nat) : itree := I (N.of_nat n).
Definition Ib (b : bool) : itree := I (if b then 1%N else 0%N).

Definition dec_nat (t : itree) : option nat :=
  match t with I n => Some (N.to_nat n) | L _ => None end.
Definition dec_N (t : itree) : option N :=
  match t with I n => Some n | L _ => None end.
Definition dec_bool (t : itree) : option bool :=
  match t with I 0%N => Some false | I 1%N => Some true | _ => None end.

Fixpoint dec_all {A} (f : itree -> option A) (l : list itree) : option (list A) :=
  match l with
  | [] => Some []
  | t :: r => match f t, dec_all f r with
              | Some x, Some xs => Some (x :: xs)
              | _, _ => None
              end
  end.

Definition dec_list {A} (f : itree -> option A) (t : itree) : option (list A) :=
  match t with L l => dec_all f l | I _ => None end.

Definition dec_pair {A B} (f : itree -> option A) (g : itree -> option B) (t : itree)
  : option (A * B) :=
  match t with
  | L [a; b] => match f a, g b with Some x, Some y => Some (x, y) | _, _ => None end
  | _ => None
  end.

(* optional value: [] = None, [x] = Some x *)
Definition dec_opt {A} (f : itree -> option A) (t : itree) : option (option A) :=
  match t with
  | L [] => Some None
  | L [a] => match f a with Some x => Some (Some x) | None => None end
  | _ => None
  end.

Definition enc_list {A} (f : A -> itree) (l : list A) : itree := L (map f l).
Definition enc_pair {A B} (f : A -> itree) (g : B -> itree) (p : A * B) : itree :=
  L [f (fst p); g (snd p)].
Definition enc_opt {A} (f : A -> itree) (o : option A) : itree :=
  match o with None => L [] | Some x => L [f x] end.
Definition enc_nats (l : list nat) : itree := enc_list In_ l.

(* results: [1, value] or [0, error code] *)
Definition enc_res {A} (f : A -> itree) (r : res A) : itree :=
  match r with
  | Ok x => L [I 1%N; f x]
  | Err e => L [I 0%N; In_ (err_code e)]
  end.

Definition bad_input : itree := L [I 0%N; I 99%N].
