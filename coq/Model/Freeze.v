(* C18 - immutability of automaton objects.
   Mirror model of automata/base/utils.py [freeze_value] (after the repair of DESIGN section 8
   row 12: the list branch also takes tuples) and of the attribute handling of
   automata/base/automaton.py (Automaton.__init__, __setattr__, __delattr__, input_parameters,
   copy, __getstate__/__setstate__).  No proofs here. *)
From Coq Require Import List Arith Bool.
From AV Require Import Base.Util.
Import ListNotations.

(* Python values as a rose tree.  Atoms carry an identifier chosen by the harness (one number
   per distinct atom of a case).  VOther = any object none of the isinstance tests of
   freeze_value recognises (float, bytes, deque, user objects ...): it is passed through.
   Dict entries are key/value pairs; sets and dicts keep the order in which the harness lists
   them (order is not observable, the harness compares them as sets). *)
Inductive pyval :=
| VStr (n : nat) | VInt (n : nat) | VBool (b : bool) | VNone | VOther (n : nat)
| VDict (kvs : list (pyval * pyval)) | VSet (l : list pyval) | VList (l : list pyval)
| VFrozenDict (kvs : list (pyval * pyval)) | VFrozenSet (l : list pyval) | VTuple (l : list pyval).

(* freeze_value, branch by branch:
     isinstance(value, (str, int))  -> value            (bool is an int subclass)
     isinstance(value, dict)        -> frozendict({k: freeze(v)})   keys are NOT frozen;
                                       frozendict (pure-Python build installed here) is a dict
                                       subclass, so an already frozen dict is rebuilt the same way
     isinstance(value, set)         -> frozenset(freeze(e) ...)     (frozenset is not a set)
     isinstance(value, (list,tuple))-> tuple(freeze(e) ...)         (tuple: the repair)
     otherwise                      -> value             (None, frozenset, anything else) *)
Fixpoint freeze (v : pyval) : pyval :=
  match v with
  | VStr _ | VInt _ | VBool _ => v
  | VDict kvs | VFrozenDict kvs => VFrozenDict (map (fun kv => (fst kv, freeze (snd kv))) kvs)
  | VSet l => VFrozenSet (map freeze l)
  | VList l | VTuple l => VTuple (map freeze l)
  | VNone | VOther _ | VFrozenSet _ => v
  end.

(* the function as it stands before the repair: a tuple falls through unchanged *)
Fixpoint freeze_unfixed (v : pyval) : pyval :=
  match v with
  | VStr _ | VInt _ | VBool _ => v
  | VDict kvs | VFrozenDict kvs => VFrozenDict (map (fun kv => (fst kv, freeze_unfixed (snd kv))) kvs)
  | VSet l => VFrozenSet (map freeze_unfixed l)
  | VList l => VTuple (map freeze_unfixed l)
  | VNone | VOther _ | VFrozenSet _ | VTuple _ => v
  end.

(* no mutable container anywhere (keys included) *)
Fixpoint immutable (v : pyval) : bool :=
  match v with
  | VDict _ | VSet _ | VList _ => false
  | VFrozenDict kvs => forallb (fun kv => immutable (fst kv) && immutable (snd kv)) kvs
  | VFrozenSet l | VTuple l => forallb immutable l
  | VStr _ | VInt _ | VBool _ | VNone | VOther _ => true
  end.

(* what Python itself guarantees about any value that exists: members of sets and keys of
   dicts are hashable, and for these types hashable = contains no mutable container *)
Fixpoint wf (v : pyval) : bool :=
  match v with
  | VDict kvs | VFrozenDict kvs => forallb (fun kv => immutable (fst kv) && wf (snd kv)) kvs
  | VSet l | VFrozenSet l => forallb immutable l
  | VList l | VTuple l => forallb wf l
  | VStr _ | VInt _ | VBool _ | VNone | VOther _ => true
  end.

(* abstract content: the same tree with every container replaced by its immutable kind *)
Fixpoint erase (v : pyval) : pyval :=
  match v with
  | VDict kvs | VFrozenDict kvs => VFrozenDict (map (fun kv => (erase (fst kv), erase (snd kv))) kvs)
  | VSet l | VFrozenSet l => VFrozenSet (map erase l)
  | VList l | VTuple l => VTuple (map erase l)
  | VStr _ | VInt _ | VBool _ | VNone | VOther _ => v
  end.

Definition content_eq (a b : pyval) : Prop := erase a = erase b.

(* ---- automaton objects ---- *)
(* cls = which class; attributes = the public slots in constructor order (name id, value).
   The private cache slots of DFA are not part of the definition and are not modelled. *)
Record obj := mkobj { o_cls : nat; o_attrs : list (nat * pyval) }.

(* Automaton.__init__: every keyword argument is stored frozen, or as given when
   automata.base.config.allow_mutable_automata is set *)
Definition construct (mutable_mode : bool) (cls : nat) (kwargs : list (nat * pyval)) : obj :=
  mkobj cls (map (fun kv => (fst kv, if mutable_mode then snd kv else freeze (snd kv))) kwargs).

Definition input_parameters (m : obj) : list (nat * pyval) := o_attrs m.

(* copy() builds type(self) from self.input_parameters as keyword arguments; a pickle round trip goes through
   __getstate__ = input_parameters and __setstate__ = __init__ on that state, i.e. the same *)
Definition copy (mutable_mode : bool) (m : obj) : obj :=
  construct mutable_mode (o_cls m) (input_parameters m).
Definition pickle_roundtrip (mutable_mode : bool) (m : obj) : obj :=
  construct mutable_mode (o_cls m) (input_parameters m).

Definition AttributeErr : err := OtherErr 45.
(* __setattr__ / __delattr__ raise unconditionally; the object is what it was *)
Definition setattr (m : obj) (name : nat) (v : pyval) : obj * res unit := (m, Err AttributeErr).
Definition delattr (m : obj) (name : nat) : obj * res unit := (m, Err AttributeErr).

(* a history of attempted attribute writes/deletes and copies *)
Inductive call := CSet (name : nat) (v : pyval) | CDel (name : nat).
Definition do_call (m : obj) (c : call) : obj * res unit :=
  match c with CSet n v => setattr m n v | CDel n => delattr m n end.
Definition run_calls (m : obj) (cs : list call) : obj :=
  fold_left (fun m c => fst (do_call m c)) cs m.
