(* C03 dispatch: Turing-machine simulators on (machine, fuel, word) *)
From Coq Require Import List Arith NArith Bool.
From AV Require Import Base.Util Base.ITree Spec.TM Model.TM.
Import ListNotations.

Definition dec_dir (t : itree) : option dir :=
  match dec_nat t with
  | Some 0 => Some DL | Some 1 => Some DR | Some 2 => Some DN | _ => None
  end.

Definition dec_act (t : itree) : option act :=
  match t with
  | L [a; b; c] => match dec_nat a, dec_nat b, dec_dir c with
                   | Some q, Some s, Some d => Some (q, s, d)
                   | _, _, _ => None
                   end
  | _ => None
  end.

Definition dec_nl : itree -> option (list nat) := dec_list dec_nat.

(* DTM: [[[q, [[s, [q', w, d]], ...]], ...], init, blank, finals] *)
Definition dec_dtm (t : itree) : option dtm :=
  match t with
  | L [ttr; ti; tb; tf] =>
    match dec_list (dec_pair dec_nat (dec_list (dec_pair dec_nat dec_act))) ttr,
          dec_nat ti, dec_nat tb, dec_nl tf with
    | Some tr, Some i, Some b, Some f => Some (mkdtm tr i b f)
    | _, _, _, _ => None
    end
  | _ => None
  end.

(* NTM: same with a list of actions per entry *)
Definition dec_ntm (t : itree) : option ntm :=
  match t with
  | L [ttr; ti; tb; tf] =>
    match dec_list (dec_pair dec_nat (dec_list (dec_pair dec_nat (dec_list dec_act)))) ttr,
          dec_nat ti, dec_nat tb, dec_nl tf with
    | Some tr, Some i, Some b, Some f => Some (mkntm tr i b f)
    | _, _, _, _ => None
    end
  | _ => None
  end.

(* MNTM: [n, [[q, [[[s1..sn], [[q', [[w, d], ...]], ...]], ...]], ...], init, blank, finals] *)
Definition dec_malt : itree -> option malt :=
  dec_pair dec_nat (dec_list (dec_pair dec_nat dec_dir)).

Definition dec_mntm (t : itree) : option mntm :=
  match t with
  | L [tn; ttr; ti; tb; tf] =>
    match dec_nat tn,
          dec_list (dec_pair dec_nat (dec_list (dec_pair dec_nl (dec_list dec_malt)))) ttr,
          dec_nat ti, dec_nat tb, dec_nl tf with
    | Some n, Some tr, Some i, Some b, Some f => Some (mkmntm n tr i b f)
    | _, _, _, _, _ => None
    end
  | _ => None
  end.

(* configurations leave as (state, head-relative non-blank contents) *)
Definition enc_tape (t : tape) : itree :=
  match canon t with (l, h, r) => L [enc_nats l; In_ h; enc_nats r] end.
Definition enc_pcfg (c : pcfg) : itree := L [In_ (fst c); enc_tape (snd c)].
Definition enc_mcfg (c : mcfg) : itree := L [In_ (fst c); enc_list enc_tape (snd c)].
Definition enc_unit (_ : unit) : itree := L [].

(* op 1: DTM   [dtm, fuel, word]  -> [yields, outcome, verdict]
   op 2: NTM   [ntm, fuel, word]  -> [levels, outcome, verdict]
   op 3: MNTM  [mntm, fuel, word] -> [yields, outcome, verdict]
   op 4: one deterministic table run three ways [dtm, fuel, word] -> three verdicts *)
(* harness guard, not part of any theorem: the largest fuel along which no level is wider than cap
   (the first too-wide level is still included, so that a disagreement in level size stays visible) *)
Fixpoint ntm_safe_fuel (m : ntm) (cap fuel : nat) (cur : list pcfg) : nat :=
  match cur with
  | [] => 0
  | _ =>
    if existsb (fun c => memb (fst c) (nt_finals m)) cur then 0
    else match fuel with
         | 0 => 0
         | S f => let nxt := cfg_dedup (flat_map (ntm_next m) cur) in
                  if Nat.ltb cap (length nxt) then 1 else S (ntm_safe_fuel m cap f nxt)
         end
  end.

Definition d03 (op : nat) (t : itree) : itree :=
  match op, t with
  | 1, L [tm; tf; tw] =>
    match dec_dtm tm, dec_nat tf, dec_nl tw with
    | Some m, Some f, Some w =>
      let (ys, o) := dtm_stepwise m f w in
      L [enc_list enc_pcfg ys; enc_res enc_pcfg o; enc_res Ib (dtm_accepts m f w)]
    | _, _, _ => bad_input
    end
  | 2, L [tm; tf; tw] =>
    match dec_ntm tm, dec_nat tf, dec_nl tw with
    | Some m, Some f, Some w =>
      let (ys, o) := ntm_levels m f w in
      L [enc_list (enc_list enc_pcfg) ys; enc_res enc_unit o; enc_res Ib (ntm_accepts m f w)]
    | _, _, _ => bad_input
    end
  | 2, L [tm; tf; tw; tcap] =>    (* same, but never explore past a level wider than cap (harness guard) *)
    match dec_ntm tm, dec_nat tf, dec_nl tw, dec_nat tcap with
    | Some m, Some f, Some w, Some cap =>
      let f' := Nat.min f (ntm_safe_fuel m cap f [ntm_start m w]) in
      let (ys, o) := ntm_levels m f' w in
      L [enc_list (enc_list enc_pcfg) ys; enc_res enc_unit o; enc_res Ib (ntm_accepts m f' w); Ib (Nat.ltb f' f)]
    | _, _, _, _ => bad_input
    end
  | 3, L [tm; tf; tw] =>
    match dec_mntm tm, dec_nat tf, dec_nl tw with
    | Some m, Some f, Some w =>
      let (ys, o) := mntm_stepwise m f w in
      L [enc_list enc_mcfg ys; enc_res enc_mcfg o; enc_res Ib (mntm_accepts m f w)]
    | _, _, _ => bad_input
    end
  | 4, L [tm; tf; tw] =>
    match dec_dtm tm, dec_nat tf, dec_nl tw with
    | Some m, Some f, Some w =>
      L [enc_res Ib (dtm_accepts m f w);
         enc_res Ib (ntm_accepts (ntm_of_dtm m) f w);
         enc_res Ib (mntm_accepts (mntm_of_dtm m) f w)]
    | _, _, _ => bad_input
    end
  | _, _ => bad_input
  end.
