(* C18 dispatch: python values and automaton objects on the wire.
   pyval: [tag, payload] with tags 0 VStr, 1 VInt, 2 VBool, 3 VNone, 4 VOther (payload = number),
   5 VDict, 8 VFrozenDict (payload = [[k, v], ...]), 6 VSet, 7 VList, 9 VFrozenSet, 10 VTuple
   (payload = [v, ...]). *)
From Coq Require Import List Arith NArith Bool.
From AV Require Import Base.Util Base.ITree Model.Freeze.
Import ListNotations.

Fixpoint dec_pyval (t : itree) : option pyval :=
  match t with
  | L [I tag; I n] =>
    match N.to_nat tag with
    | 0 => Some (VStr (N.to_nat n))
    | 1 => Some (VInt (N.to_nat n))
    | 2 => match n with 0%N => Some (VBool false) | 1%N => Some (VBool true) | _ => None end
    | 3 => Some VNone
    | 4 => Some (VOther (N.to_nat n))
    | _ => None
    end
  | L [I tag; L items] =>
    let fix all (l : list itree) : option (list pyval) :=
      match l with
      | [] => Some []
      | x :: r => match dec_pyval x, all r with
                  | Some v, Some vs => Some (v :: vs)
                  | _, _ => None
                  end
      end in
    let fix allkv (l : list itree) : option (list (pyval * pyval)) :=
      match l with
      | [] => Some []
      | L [k; x] :: r => match dec_pyval k, dec_pyval x, allkv r with
                         | Some k', Some x', Some kvs => Some ((k', x') :: kvs)
                         | _, _, _ => None
                         end
      | _ => None
      end in
    match N.to_nat tag with
    | 5 => option_map VDict (allkv items)
    | 6 => option_map VSet (all items)
    | 7 => option_map VList (all items)
    | 8 => option_map VFrozenDict (allkv items)
    | 9 => option_map VFrozenSet (all items)
    | 10 => option_map VTuple (all items)
    | _ => None
    end
  | _ => None
  end.

Fixpoint enc_pyval (v : pyval) : itree :=
  let kvs l := L (map (fun kv : pyval * pyval => L [enc_pyval (fst kv); enc_pyval (snd kv)]) l) in
  match v with
  | VStr n => L [In_ 0; In_ n]
  | VInt n => L [In_ 1; In_ n]
  | VBool b => L [In_ 2; Ib b]
  | VNone => L [In_ 3; In_ 0]
  | VOther n => L [In_ 4; In_ n]
  | VDict l => L [In_ 5; kvs l]
  | VSet l => L [In_ 6; L (map enc_pyval l)]
  | VList l => L [In_ 7; L (map enc_pyval l)]
  | VFrozenDict l => L [In_ 8; kvs l]
  | VFrozenSet l => L [In_ 9; L (map enc_pyval l)]
  | VTuple l => L [In_ 10; L (map enc_pyval l)]
  end.

Definition dec_attrs : itree -> option (list (nat * pyval)) := dec_list (dec_pair dec_nat dec_pyval).
Definition enc_attrs (l : list (nat * pyval)) : itree := enc_list (enc_pair In_ enc_pyval) l.
Definition enc_obj (m : obj) : itree := L [In_ (o_cls m); enc_attrs (o_attrs m)].

(* op 1: v -> [freeze v, immutable (freeze v), wf v, erase v, erase (freeze v), freeze (freeze v)]
   op 2: v -> [freeze_unfixed v, immutable (freeze_unfixed v)]      (diagnosis only)
   op 3: [mutable_mode, cls, kwargs] ->
           [input_parameters m, all stored values immutable, copy m, pickle_roundtrip m]
           with m = construct mutable_mode cls kwargs
   op 4: [mutable_mode, cls, kwargs] -> [error code of setattr, error code of delattr,
           input_parameters after a set and a delete attempt] *)
Definition d18 (op : nat) (t : itree) : itree :=
  match op, t with
  | 1, tv =>
    match dec_pyval tv with
    | Some v => L [enc_pyval (freeze v); Ib (immutable (freeze v)); Ib (wf v);
                   enc_pyval (erase v); enc_pyval (erase (freeze v)); enc_pyval (freeze (freeze v))]
    | None => bad_input
    end
  | 2, tv =>
    match dec_pyval tv with
    | Some v => L [enc_pyval (freeze_unfixed v); Ib (immutable (freeze_unfixed v))]
    | None => bad_input
    end
  | 3, L [tm; tc; tk] =>
    match dec_bool tm, dec_nat tc, dec_attrs tk with
    | Some mm, Some c, Some kw =>
      let m := construct mm c kw in
      L [enc_attrs (input_parameters m);
         Ib (forallb (fun kv => immutable (snd kv)) (input_parameters m));
         enc_obj (copy mm m); enc_obj (pickle_roundtrip mm m)]
    | _, _, _ => bad_input
    end
  | 4, L [tm; tc; tk] =>
    match dec_bool tm, dec_nat tc, dec_attrs tk with
    | Some mm, Some c, Some kw =>
      let m := construct mm c kw in
      let r1 := setattr m 0 VNone in
      let r2 := delattr (fst r1) 0 in
      L [enc_res (fun _ => L []) (snd r1); enc_res (fun _ => L []) (snd r2);
         enc_attrs (input_parameters (fst r2))]
    | _, _, _ => bad_input
    end
  | _, _ => bad_input
  end.
