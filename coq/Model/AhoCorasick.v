(* C15: mirror model of DFA.from_substrings (automata/fa/dfa.py, lines 1942-2032), the
   Aho-Corasick construction, decision by decision.

   Python objects -> model
   - Node objects live in a list `nodes`; a node IS its label (labels[id(node)] = len(labels) at
     creation = its index in the list; the root has label 0).
   - node.successors (a dict, insertion ordered) = association list symbol -> label, new keys appended.
   - node.fail (None or a node) = option label.  None also stands for "fall back to the root".
   - node.out (None or a linked list of OutNode(keyword)) = the list of keywords of the chain,
     None = [].  The code only ever asks `out is not None`; chaining `out.successor = fail.out`
     = appending the fail node's list.
   - `for substring in substrings` iterates a Python set: the iteration order is a schedule; here the
     patterns are a LIST and every theorem quantifies over all lists (all orders).
   - dict / list lookups that would raise are Err IndexErr; the three `while` loops and the two
     queue loops run on explicit fuel (Err Fuel). *)
From Coq Require Import List Arith Bool.
From AV Require Import Base.Util Spec.Lang Spec.FA Spec.Preds Model.Construct Model.KMP.
Import ListNotations.

Record tnode := mknode { t_succ : list (nat * nat); t_out : list word; t_fail : option nat }.

Definition empty_node : tnode := mknode [] [] None.                  (* Node() *)

(* ---- lines 1961-1970: the trie ---- *)
Fixpoint ins_word (nodes : list tnode) (cur : nat) (w : word) : res (list tnode * nat) :=
  match w with
  | [] => Ok (nodes, cur)
  | a :: w' =>
    bind (idx nodes cur) (fun nd =>
      match assoc a (t_succ nd) with
      | Some nxt => ins_word nodes nxt w'                             (* setdefault: key present *)
      | None =>                                                       (* a new Node(), label len(labels) *)
        let new := length nodes in
        let nd' := mknode (t_succ nd ++ [(a, new)]) (t_out nd) (t_fail nd) in
        ins_word (upd nodes cur nd' ++ [empty_node]) new w'
      end)
  end.

Definition ins_pat (nodes : list tnode) (p : word) : res (list tnode) :=
  bind (ins_word nodes 0 p) (fun r =>
    let (nodes', cur) := r in
    bind (idx nodes' cur) (fun nd =>
      Ok (upd nodes' cur (mknode (t_succ nd) [p] (t_fail nd))))).    (* current_node.out = OutNode(substring, None) *)

Fixpoint ins_all (nodes : list tnode) (pats : list word) : res (list tnode) :=
  match pats with
  | [] => Ok nodes
  | p :: r => bind (ins_pat nodes p) (fun nodes' => ins_all nodes' r)
  end.

(* ---- lines 1979-1980 and 2009-2010:
        while st is not None and symbol not in st.successors: st = st.fail ---- *)
Fixpoint fail_walk (nodes : list tnode) (a : nat) (fuel : nat) (st : option nat) : res (option nat) :=
  match fuel with
  | 0 => Err Fuel
  | S fuel' =>
    match st with
    | None => Ok None
    | Some k =>
      bind (idx nodes k) (fun nd =>
        match assoc a (t_succ nd) with
        | Some _ => Ok st
        | None => fail_walk nodes a fuel' (t_fail nd)
        end)
    end
  end.

(* lines 1978-1994: fail link and output chain of one successor of current_node *)
Definition set_fail (fuel : nat) (cfail : option nat) (nodes : list tnode) (e : nat * nat) : res (list tnode) :=
  let (a, s) := e in
  bind (fail_walk nodes a fuel cfail) (fun st =>
  let st' := match st with None => 0 | Some k => k end in                     (* if st is None: st = root *)
  bind (idx nodes st') (fun sn =>
  bind (idx nodes s) (fun sd =>
    match assoc a (t_succ sn) with                                              (* successor.fail = st.successors.get(symbol, None) *)
    | None => Ok (upd nodes s (mknode (t_succ sd) (t_out sd) None))
    | Some fl =>
      bind (idx nodes fl) (fun fd =>
        Ok (upd nodes s (mknode (t_succ sd) (t_out sd ++ t_out fd) (Some fl))))   (* out chain := own chain, then fail.out *)
    end))).

Fixpoint foldM {A B} (f : A -> B -> res A) (l : list B) (x : A) : res A :=
  match l with
  | [] => Ok x
  | y :: r => bind (f x y) (fun x' => foldM f r x')
  end.

(* lines 1972-1994: breadth-first over the trie *)
Fixpoint fail_bfs (fuel : nat) (nodes : list tnode) (queue : list nat) : res (list tnode) :=
  match fuel with
  | 0 => Err Fuel
  | S fuel' =>
    match queue with
    | [] => Ok nodes
    | cur :: q =>
      bind (idx nodes cur) (fun nd =>
      bind (foldM (set_fail (S (length nodes)) (t_fail nd)) (t_succ nd) nodes) (fun nodes' =>
        fail_bfs fuel' nodes' (q ++ map snd (t_succ nd))))
    end
  end.

Definition ac_trie (pats : list word) : res (list tnode) :=
  bind (ins_all [empty_node] pats) (fun nodes =>
  bind (idx nodes 0) (fun root =>
    fail_bfs (S (length nodes)) nodes (map snd (t_succ root)))).

(* ---- lines 2008-2014: the target of current_node on symbol ---- *)
Definition ac_goto (nodes : list tnode) (cur a : nat) : res nat :=
  bind (fail_walk nodes a (S (length nodes)) (Some cur)) (fun st =>
  let par := match st with None => 0 | Some k => k end in                      (* if parent_node is None: parent_node = root *)
  bind (idx nodes par) (fun pn =>
    Ok (match assoc a (t_succ pn) with Some s => s | None => 0 end))).         (* .get(symbol, root) *)

(* lines 1998-2016: breadth-first from the root along the symbols of the alphabet;
   result: the rows in the order the states are visited, and the final states *)
Fixpoint goto_bfs (syms : list nat) (nodes : list tnode) (fuel : nat) (queue : list nat)
         (rows : list (nat * list (nat * nat))) (finals : list nat)
  : res (list (nat * list (nat * nat)) * list nat) :=
  match fuel with
  | 0 => Err Fuel
  | S fuel' =>
    match queue with
    | [] => Ok (rows, finals)
    | cur :: q =>
      bind (idx nodes cur) (fun nd =>
      bind (mapM (fun a => bind (ac_goto nodes cur a) (fun t => Ok (a, t))) syms) (fun row =>
        goto_bfs syms nodes fuel'
                 (q ++ flat_map (fun a => match assoc a (t_succ nd) with Some s => [s] | None => [] end) syms)
                 (rows ++ [(cur, row)])
                 (match t_out nd with [] => finals | _ :: _ => finals ++ [cur] end)))
    end
  end.

(* transitions[k] = v on a dict: replace the value of an existing key, otherwise a new key at the end *)
Fixpoint dict_set {B} (k : nat) (v : B) (l : list (nat * B)) : list (nat * B) :=
  match l with
  | [] => [(k, v)]
  | (k', v') :: r => if Nat.eqb k k' then (k, v) :: r else (k', v') :: dict_set k v r
  end.

(* the absorbing end state: end_state = len(labels) (= the number of trie nodes: an unused label, also when
   nodes behind a symbol outside the alphabet were never visited); transitions[end_state] = ...;
   for state in final_states: transitions[state] = ...; final_states.add(end_state) *)
Definition add_end (syms : list nat) (e : nat) (rows : list (nat * list (nat * nat))) (finals : list nat)
  : list (nat * list (nat * nat)) * list nat :=
  let erow := map (fun a => (a, e)) syms in
  (fold_left (fun rs q => dict_set q erow rs) finals (dict_set e erow rows),
   if memb e finals then finals else finals ++ [e]).

Definition ac_dfa (syms : list nat) (pats : list word) (contains ms : bool) : res dfa :=
  if existsb (fun p => match p with [] => true | _ :: _ => false end) pats             (* if "" in substrings *)
  then Ok (if contains then universal_m syms else empty_m syms)
  else
    bind (ac_trie pats) (fun nodes =>
    bind (goto_bfs syms nodes (S (length nodes)) [0] [] []) (fun rf =>
      let (rows, finals) := if ms then rf else add_end syms (length nodes) (fst rf) (snd rf) in
      let states := map fst rows in
      Ok (mkdfa states syms rows 0
                (if contains then finals else filter (fun q => negb (memb q finals)) states) false))).
