(* C05 - mirror model (DESIGN 3.1, kind M) of the refinement inside DFA._minify
   (automata/fa/dfa.py 591-725) and of PartitionRefinement (automata/base/utils.py 141-202):
   the per-symbol back map with the implicit trap, PartitionRefinement.refine, the initial
   refine(final states), the `processing` worklist with its update rule, the inner loop over
   the symbols.  What Python leaves undefined is an explicit argument, and the theorems
   (Proofs/Hopcroft.v) quantify over all of them:
     sched : nat -> list nat -> nat   the id `processing.pop()` returns at pop number k,
                                      given the pending ids (any pending id; when the answer
                                      is not pending the first pending id is popped);
     sord  : list nat                 the order of `transition_back_map.values()` (iteration
                                      order of the set input_symbols), fixed for one call;
     rep   : list (option nat) -> option nat    `next(iter(eq))`, some member of a class.
   Set ids: Python uses id(set) (memory addresses of live objects: distinct, otherwise
   arbitrary, only ever compared for equality).  The model numbers the sets 0, 1, 2, ... in
   the order they are created.  No proofs here. *)
From Coq Require Import List Arith Bool.
From AV Require Import Base.Util Spec.Lang Spec.FA Model.FARun Model.Decide Model.Minimize.
Import ListNotations.

(* ---- PartitionRefinement (utils.py 141-202) and the loop, over any item type ---- *)
Section Refinement.
  Variable X : Type.
  Variable eqbX : X -> X -> bool.
  Variable Q : list X.            (* the items: reachable_states (+ the trap), in a fixed order *)

  (* The object keeps two dicts in step: _partition (item -> id) and _sets (id -> set), with
     _sets[i] = {x | _partition[x] = i}.  The model stores _partition as a table over Q,
     the keys of _sets in insertion order, and the source of fresh ids. *)
  Record prs := mkprs { p_tab : table X; p_ids : list nat; p_next : nat }.

  (* __init__, utils.py 155-161: all items in one set *)
  Definition pr_init : prs := mkprs (tab Q (fun _ => 0)) [0] 1.

  (* get_set_by_id *)
  Definition members (P : prs) (i : nat) : list X :=
    filter (fun x => Nat.eqb (look eqbX (p_tab P) x) i) Q.

  (* get_sets(): in the insertion order of _sets *)
  Definition get_sets (P : prs) : list (list X) := map (members P) (p_ids P).

  Definition inS (S : list X) (x : X) : bool := gmem eqbX x S.

  (* utils.py 185-200: A = _sets[Aid] is changed iff it is hit (A & S non-empty: only hit sets
     have an entry in `hit`) and len(A & S) < len(A) *)
  Definition hitb (S : list X) (P : prs) (i : nat) : bool :=
    let A := members P i in
    let AS := filter (inS S) A in
    match AS with [] => false | _ :: _ => Nat.ltb (length AS) (length A) end.

  (* refine, utils.py 175-202.  The iterations of `for Aid, AintS in hit.items()` touch disjoint
     sets, so they are written as one comprehension: every changed set A keeps its id for A - S,
     A & S gets the next fresh id, the output pairs are (id(A & S), Aid).  (Python visits the hit
     sets in the order S first touches them, the model in the order of _sets; this only permutes
     the fresh ids and the output list, whose order the caller does not use.) *)
  Definition refine (S : list X) (P : prs) : prs * list (nat * nat) :=
    let c := look eqbX (p_tab P) in
    let hit := filter (hitb S P) (p_ids P) in
    let newid := fun i => p_next P + idx Nat.eqb i hit in
    (mkprs (tab Q (fun x => if memb (c x) hit && inS S x then newid (c x) else c x))
           (p_ids P ++ map newid hit)
           (p_next P + length hit),
     map (fun i => (newid i, i)) hit).

  (* ---- the worklist `processing`: a set of ids ---- *)
  Definition wl_add (i : nat) (W : list nat) : list nat := if memb i W then W else W ++ [i].

  (* dfa.py 664-674, for one pair (YintX_id, YdiffX_id); P is the partition after the refine call *)
  Definition upd_pair (P : prs) (W : list nat) (pr : nat * nat) : list nat :=
    let (n, i) := pr in
    if memb i W then wl_add n W
    else if Nat.leb (length (members P n)) (length (members P i)) then wl_add n W
    else wl_add i W.

  Definition upd_processing (P : prs) (W : list nat) (pairs : list (nat * nat)) : list nat :=
    fold_left (upd_pair P) pairs W.

  Variable back : nat -> X -> list X.   (* transition_back_map[a][t] : the origin states *)

  (* dfa.py 653-674: one round of `for origin_dict in origin_dicts` *)
  Definition inner_step (act : list X) (st : prs * list nat) (a : nat) : prs * list nat :=
    let (P, W) := st in
    let S := flat_map (back a) act in          (* states_that_move_into_active_state *)
    let (P2, pairs) := refine S P in
    (P2, upd_processing P2 W pairs).

  (* processing.pop(): the scheduled id if it is pending, else the first pending id *)
  Definition pop (k : nat) (W : list nat) : nat * list nat :=
    let c := if memb k W then k else hd 0 W in
    (c, filter (fun j => negb (Nat.eqb j c)) W).

  Variable sord : list nat.                    (* order of transition_back_map.values() *)
  Variable sched : nat -> list nat -> nat.

  (* dfa.py 650-674: `while processing:`; no is the number of pops so far *)
  Fixpoint hop_loop (fuel no : nat) (P : prs) (W : list nat) : option prs :=
    match fuel with
    | 0 => None
    | S f =>
      match W with
      | [] => Some P
      | _ :: _ =>
        let (c, W1) := pop (sched no W) W in
        let act := members P c in              (* tuple(eq_classes.get_set_by_id(...)): a copy *)
        let (P2, W2) := fold_left (inner_step act) sord (P, W1) in
        hop_loop f (S no) P2 W2
      end
    end.

  Variable finals : list X.                    (* reachable_final_states *)

  (* dfa.py 639-648 *)
  Definition hop_start : prs * list nat :=
    let (P1, pairs) := refine finals pr_init in
    let fid := match pairs with (n, _) :: _ => n | [] => hd 0 (p_ids P1) end in
    (P1, [fid]).

  (* every pop removes an id, every split adds one set and at most one id: |Q| pops at most *)
  Definition hopcroft : option prs :=
    let (P1, W) := hop_start in hop_loop (S (length Q)) 0 P1 W.
End Refinement.

Arguments mkprs {X} p_tab p_ids p_next.
Arguments p_tab {X} p.
Arguments p_ids {X} p.
Arguments p_next {X} p.
Arguments pr_init {X} Q.
Arguments members {X} eqbX Q P i.
Arguments get_sets {X} eqbX Q P.
Arguments inS {X} eqbX S x.
Arguments hitb {X} eqbX Q S P i.
Arguments refine {X} eqbX Q S P.
Arguments upd_pair {X} eqbX Q P W pr.
Arguments upd_processing {X} eqbX Q P W pairs.
Arguments inner_step {X} eqbX Q back act st a.
Arguments hop_loop {X} eqbX Q back sord sched fuel no P W.
Arguments hop_start {X} eqbX Q finals.
Arguments hopcroft {X} eqbX Q back sord sched finals.

(* ---- the system _minify builds (dfa.py 606-637, after the repair) ---- *)
Notation oeqb := (eqb_opt Nat.eqb).

(* path.get(symbol), then `end_state is not None and end_state in kept_states` *)
Definition h_target (K : list nat) (row : list (nat * nat)) (a : nat) : option nat :=
  match assoc a row with
  | Some t => if memb t K then Some t else None
  | None => None
  end.

(* `for start_state, path in transitions.items(): if start_state in kept_states` *)
Definition h_rows (m : dfa) (K : list nat) : list (nat * list (nat * nat)) :=
  filter (fun r => memb (fst r) K) (d_trans m).

(* `trap_state is not None` after the loop: some kept row lacks a kept target on some symbol *)
Definition h_trap (m : dfa) (K : list nat) : bool :=
  existsb (fun r => existsb (fun a => is_none (h_target K (snd r) a)) (d_syms m)) (h_rows m K).

(* transition_back_map[a][e]; the trap is None: its own self loop first (dfa.py 628-631), then the
   start states in the order of transitions.items() *)
Definition h_back (m : dfa) (K : list nat) (a : nat) (e : option nat) : list (option nat) :=
  (match e with None => [None] | Some _ => [] end) ++
  map (fun r => Some (fst r)) (filter (fun r => oeqb (h_target K (snd r) a) e) (h_rows m K)).

(* reachable_states after the loop *)
Definition h_states (m : dfa) (K : list nat) : list (option nat) :=
  map Some K ++ (if h_trap m K then [None] else []).

(* reachable_final_states *)
Definition h_finals (m : dfa) (K : list nat) : list (option nat) :=
  map Some (filter (fun q => memb q (d_finals m)) K).

Definition h_hopcroft (m : dfa) (K : list nat) (sched : nat -> list nat -> nat) (sord : list nat)
  : option (prs (option nat)) :=
  hopcroft oeqb (h_states m K) (h_back m K) sord sched (h_finals m K).

Fixpoint somes (l : list (option nat)) : list nat :=
  match l with
  | [] => []
  | Some q :: r => q :: somes r
  | None :: r => somes r
  end.

(* the final partition as the harness sees it with retain_names=True: the sets that do not
   contain the trap, as lists of original names, in get_sets() order *)
Definition h_blocks (m : dfa) (K : list nat) (P : prs (option nat)) : list (list nat) :=
  map somes (filter (fun B => negb (gmem oeqb None B)) (get_sets oeqb (h_states m K) P)).

(* ---- _minify with the specification model's naming of the result (names = least member of
        the class); the refinement is Hopcroft's ---- *)
Definition hminify_core (m : dfa) (K : list nat) (sched : nat -> list nat -> nat) (sord : list nat)
  : res (dfa * list (list nat)) :=
  match h_hopcroft m K sched sord with
  | None => Err Fuel
  | Some P => quotient m K (look oeqb (p_tab P))
  end.

Definition hminify_full (m : dfa) sched sord : res (dfa * list (list nat)) :=
  bind (kept_minify m) (fun K => hminify_core m K sched sord).

Definition hto_partial_min_full (m : dfa) sched sord : res (dfa * list (list nat)) :=
  bind (kept_live m) (fun K => hminify_core m K sched sord).

(* ---- the construction of the result as coded (dfa.py 676-725), retain_names=False:
        names = positions in get_sets(), the representative of a class = rep (any member),
        its row filtered through back_map ---- *)
Section Coded.
  Variable m : dfa.
  Variable K : list nat.
  Variable P : prs (option nat).
  Variable rep : list nat -> nat.        (* next(iter(eq)) for a class without the trap *)

  Definition c_sets : list (list (option nat)) := get_sets oeqb (h_states m K) P.

  (* list(enumerate(eq_classes.get_sets())) *)
  Definition c_pairs : list (nat * list (option nat)) := combine (seq 0 (length c_sets)) c_sets.

  (* `trap_state in eq` (never true when no trap was created: None is then no item) *)
  Definition c_has_trap (eq : list (option nat)) : bool := gmem oeqb None eq.

  (* back_map, dfa.py 684-689: state -> name, the trap's class left out *)
  Definition c_back_map : list (nat * nat) :=
    flat_map (fun p => if c_has_trap (snd p) then [] else map (fun q => (q, fst p)) (somes (snd p))) c_pairs.

  Definition c_name (q : nat) : res nat :=
    match assoc q c_back_map with Some n => Ok n | None => Err KeyErr end.

  (* dfa.py 706-718: the new row of one class *)
  Definition c_row (eq : list (option nat)) : res (list (nat * nat)) :=
    match d_row m (rep (somes eq)) with
    | None => Err KeyErr                                   (* transitions[eq_class_rep] *)
    | Some old =>
      Ok (flat_map (fun p => match assoc (snd p) c_back_map with Some n => [(fst p, n)] | None => [] end) old)
    end.

  Definition c_live : list (nat * list (option nat)) := filter (fun p => negb (c_has_trap (snd p))) c_pairs.

  (* second component: the classes themselves (the names retain_names=True would give) *)
  Definition c_quotient : res (dfa * list (list nat)) :=
    match c_back_map with
    | [] => Ok (empty_language (d_syms m), [])             (* `if not back_map` *)
    | _ :: _ =>
      bind (c_name (d_init m)) (fun i0 =>                  (* back_map[initial_state] *)
      bind (mapM c_name (filter (fun q => memb q (d_finals m)) K)) (fun fs =>
      bind (mapM (fun p => bind (c_row (snd p)) (fun r => Ok (fst p, r))) c_live) (fun tr =>
      Ok (mkdfa (set_of (map snd c_back_map)) (d_syms m) tr i0 (set_of fs)
                (existsb (fun r => negb (Nat.eqb (length (snd r)) (length (d_syms m)))) tr),
          map (fun p => somes (snd p)) c_live))))
    end.
End Coded.

Definition cminify_core (m : dfa) (K : list nat) sched sord rep : res (dfa * list (list nat)) :=
  match h_hopcroft m K sched sord with
  | None => Err Fuel
  | Some P => c_quotient m K P rep
  end.

(* DFA.minify(retain_names=False) and DFA.to_partial(minify=True), every step as coded *)
Definition cminify_full (m : dfa) sched sord rep : res (dfa * list (list nat)) :=
  bind (kept_minify m) (fun K => cminify_core m K sched sord rep).
Definition cto_partial_min_full (m : dfa) sched sord rep : res (dfa * list (list nat)) :=
  bind (kept_live m) (fun K => cminify_core m K sched sord rep).
