(* C03: executable models of the Turing-machine simulators, decision by decision as in
   automata/tm/tape.py (TMTape.__init__, read_symbol, write_symbol, move),
   automata/tm/dtm.py (_get_transition, _get_next_configuration, read_input_stepwise),
   automata/tm/ntm.py (_get_transitions, _get_next_configurations, read_input_stepwise),
   automata/tm/mntm.py (_get_tapes_for_input_str, _get_transition, _get_next_configuration,
   read_input_stepwise).  No proofs here. *)
From Coq Require Import List Arith ZArith Bool.
From AV Require Import Base.Util Spec.TM.
Import ListNotations.

(* ---------- TMTape: a tuple of cells, the blank symbol, the head index ---------- *)
Record tape := mktape { t_cells : list nat; t_pos : nat; t_blank : nat }.

(* __init__: `while len(tape) <= current_position: tape.append(blank_symbol)` *)
Definition tape_init (cells : list nat) (blank pos : nat) : tape :=
  mktape (cells ++ repeat blank (S pos - length cells)) pos blank.

(* read_symbol: tape[current_position]; the index is in range for every tape built by
   tape_init / t_write / t_move (lemmas wf_init, wf_write, wf_move in Proofs/TM.v), so no IndexError branch *)
Definition t_read (t : tape) : nat := nth (t_pos t) (t_cells t) (t_blank t).

Definition upd (i : nat) (x : nat) (l : list nat) : list nat :=
  firstn i l ++ match skipn i l with [] => [] | _ :: r => x :: r end.

(* write_symbol: tape_elements[current_position] = symbol (the constructor's padding
   loop does nothing on an in-range position) *)
Definition t_write (t : tape) (s : nat) : tape :=
  mktape (upd (t_pos t) s (t_cells t)) (t_pos t) (t_blank t).

(* move: new_position +-1 / unchanged; `if new_position == -1: insert(0, blank);
   new_position += 1`; `if new_position == len(new_tape): append(blank)` *)
Definition t_move (t : tape) (d : dir) : tape :=
  let np : Z := (Z.of_nat (t_pos t) + doff d)%Z in
  let cells1 := if Z.eqb np (-1) then t_blank t :: t_cells t else t_cells t in
  let np1 : Z := if Z.eqb np (-1) then (np + 1)%Z else np in
  let cells2 := if Z.eqb np1 (Z.of_nat (length cells1)) then cells1 ++ [t_blank t] else cells1 in
  mktape cells2 (Z.to_nat np1) (t_blank t).

(* the head-relative bi-infinite reading of a tape object *)
Definition view (t : tape) : ztape :=
  fun z => let i := (Z.of_nat (t_pos t) + z)%Z in
           if Z.ltb i 0 then t_blank t else nth (Z.to_nat i) (t_cells t) (t_blank t).

(* canonical observable of a tape: cells to the left of the head (nearest first), the
   scanned cell, cells to the right; blanks at the far ends dropped *)
Fixpoint strip_end (b : nat) (l : list nat) : list nat :=
  match l with
  | [] => []
  | x :: r => match strip_end b r with
              | [] => if Nat.eqb x b then [] else [x]
              | r' => x :: r'
              end
  end.

Definition canon (t : tape) : list nat * nat * list nat :=
  (strip_end (t_blank t) (rev (firstn (t_pos t) (t_cells t))),
   t_read t,
   strip_end (t_blank t) (skipn (S (t_pos t)) (t_cells t))).

Definition eqb_tape (a b : tape) : bool :=
  eqb_list Nat.eqb (t_cells a) (t_cells b) && Nat.eqb (t_pos a) (t_pos b) &&
  Nat.eqb (t_blank a) (t_blank b).

(* ---------- TMConfiguration ---------- *)
Definition pcfg := (nat * tape)%type.
Definition eqb_pcfg (a b : pcfg) : bool := Nat.eqb (fst a) (fst b) && eqb_tape (snd a) (snd b).
Definition abs_cfg (c : pcfg) : zcfg := (fst c, view (snd c)).

(* ---------- DTM ---------- *)
Definition dtm_start (m : dtm) (w : list nat) : pcfg := (dt_init m, tape_init w (dt_blank m) 0).

(* _get_next_configuration (None = RejectionException) *)
Definition dtm_next (m : dtm) (c : pcfg) : option pcfg :=
  match dt_delta m (fst c) (t_read (snd c)) with
  | None => None
  | Some (q', s, d) => Some (q', t_move (t_write (snd c) s) d)
  end.

(* the loop of read_input_stepwise after [c] has been yielded: configurations yielded
   from here on, and how the generator ends (Ok last = StopIteration) *)
Fixpoint dtm_run (m : dtm) (fuel : nat) (c : pcfg) : list pcfg * res pcfg :=
  if memb (fst c) (dt_finals m) then ([], Ok c)
  else match dtm_next m c with
       | None => ([], Err Reject)
       | Some c' =>
         match fuel with
         | 0 => ([], Err Fuel)
         | S f => let (ys, o) := dtm_run m f c' in (c' :: ys, o)
         end
       end.

Definition dtm_stepwise (m : dtm) (fuel : nat) (w : list nat) : list pcfg * res pcfg :=
  let c0 := dtm_start m w in
  let (ys, o) := dtm_run m fuel c0 in (c0 :: ys, o).

Definition verdict_of {A} (r : res A) : res bool :=
  match r with Ok _ => Ok true | Err Reject => Ok false | Err e => Err e end.
Definition dtm_accepts (m : dtm) (fuel : nat) (w : list nat) : res bool :=
  verdict_of (snd (dtm_stepwise m fuel w)).

(* ---------- NTM ---------- *)
Definition ntm_start (m : ntm) (w : list nat) : pcfg := (nt_init m, tape_init w (nt_blank m) 0).

(* _get_next_configurations *)
Definition ntm_next (m : ntm) (c : pcfg) : list pcfg :=
  map (fun a => match a with (q', s, d) => (q', t_move (t_write (snd c) s) d) end)
      (nt_delta m (fst c) (t_read (snd c))).

(* a Python set of configurations: duplicates (same state, same tape object fields) merged;
   the iteration order of the set is not observable *)
Fixpoint cfg_mem (c : pcfg) (l : list pcfg) : bool :=
  match l with [] => false | x :: r => eqb_pcfg c x || cfg_mem c r end.
Fixpoint cfg_dedup (l : list pcfg) : list pcfg :=
  match l with
  | [] => []
  | x :: r => if cfg_mem x r then cfg_dedup r else x :: cfg_dedup r
  end.

(* the while loop after [cur] has been yielded *)
Fixpoint ntm_run (m : ntm) (fuel : nat) (cur : list pcfg) : list (list pcfg) * res unit :=
  match cur with
  | [] => ([], Err Reject)
  | _ =>
    if existsb (fun c => memb (fst c) (nt_finals m)) cur then ([], Ok tt)
    else match fuel with
         | 0 => ([], Err Fuel)
         | S f => let nxt := cfg_dedup (flat_map (ntm_next m) cur) in
                  let (ys, o) := ntm_run m f nxt in (nxt :: ys, o)
         end
  end.

Definition ntm_levels (m : ntm) (fuel : nat) (w : list nat) : list (list pcfg) * res unit :=
  let l0 := [ntm_start m w] in
  let (ys, o) := ntm_run m fuel l0 in (l0 :: ys, o).

Definition ntm_accepts (m : ntm) (fuel : nat) (w : list nat) : res bool :=
  verdict_of (snd (ntm_levels m fuel w)).

(* ---------- MNTM ---------- *)
Definition mcfg := (nat * list tape)%type.
Definition abs_mcfg (c : mcfg) : mzcfg := (fst c, map view (snd c)).

(* _get_tapes_for_input_str *)
Definition mntm_start (m : mntm) (w : list nat) : mcfg :=
  (mt_init m,
   tape_init w (mt_blank m) 0 :: repeat (tape_init [mt_blank m] (mt_blank m) 0) (mt_n m - 1)).

(* _get_next_configuration: zip(moves, current_tapes) *)
Definition mntm_apply (c : mcfg) (a : malt) : mcfg :=
  (fst a, map (fun p => t_move (t_write (snd p) (fst (fst p))) (snd (fst p)))
              (combine (snd a) (snd c))).

(* one iteration of the BFS loop on the dequeued configuration:
   inl = the generator returns (accept) / raises; inr = configurations appended to the queue *)
Definition mntm_expand (m : mntm) (c : mcfg) : res mcfg + list mcfg :=
  match mt_delta m (fst c) (map t_read (snd c)) with
  | None => if memb (fst c) (mt_finals m) then inl (Ok c) else inr []
  | Some [] => if memb (fst c) (mt_finals m) then inl (Ok c) else inr []   (* `if not possible_transitions` (repaired code):
                                                             an entry with no alternative is no transition *)
  | Some (a0 :: rest) => inr (map (mntm_apply c) rest ++ [mntm_apply c a0])
  end.

(* `while len(queue) > 0`: one unit of fuel per dequeued (= yielded) configuration *)
Fixpoint mntm_bfs (m : mntm) (fuel : nat) (queue : list mcfg) : list mcfg * res mcfg :=
  match queue with
  | [] => ([], Err Reject)
  | c :: q =>
    match fuel with
    | 0 => ([], Err Fuel)
    | S f => match mntm_expand m c with
             | inl o => ([c], o)
             | inr new => let (ys, o) := mntm_bfs m f (q ++ new) in (c :: ys, o)
             end
    end
  end.

Definition mntm_stepwise (m : mntm) (fuel : nat) (w : list nat) : list mcfg * res mcfg :=
  mntm_bfs m fuel [mntm_start m w].

Definition mntm_accepts (m : mntm) (fuel : nat) (w : list nat) : res bool :=
  verdict_of (snd (mntm_stepwise m fuel w)).
