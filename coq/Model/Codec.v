(* Decoders/encoders between itree and the automaton records (extracted glue). *)
From Coq Require Import List Arith NArith Bool.
From AV Require Import Base.Util Base.ITree Spec.Lang Spec.FA.
Import ListNotations.

Definition dec_word : itree -> option word := dec_list dec_nat.
Definition dec_nats : itree -> option (list nat) := dec_list dec_nat.

(* DFA: [states, syms, [[q, [[a, q'], ...]], ...], init, finals, partial] *)
Definition dec_dfa (t : itree) : option dfa :=
  match t with
  | L [ts; ty; ttr; ti; tf; tp] =>
    match dec_nats ts, dec_nats ty,
          dec_list (dec_pair dec_nat (dec_list (dec_pair dec_nat dec_nat))) ttr,
          dec_nat ti, dec_nats tf, dec_bool tp with
    | Some s, Some y, Some tr, Some i, Some f, Some p => Some (mkdfa s y tr i f p)
    | _, _, _, _, _, _ => None
    end
  | _ => None
  end.

Definition enc_dfa (m : dfa) : itree :=
  L [enc_nats (d_states m); enc_nats (d_syms m);
     enc_list (enc_pair In_ (enc_list (enc_pair In_ In_))) (d_trans m);
     In_ (d_init m); enc_nats (d_finals m); Ib (d_partial m)].

(* NFA symbols on the wire: 0 = empty string, k+1 = symbol k *)
Definition dec_osym (t : itree) : option (option nat) :=
  match dec_nat t with
  | Some 0 => Some None
  | Some (S k) => Some (Some k)
  | None => None
  end.
Definition enc_osym (o : option nat) : itree :=
  match o with None => In_ 0 | Some k => In_ (S k) end.

Definition dec_nfa (t : itree) : option nfa :=
  match t with
  | L [ts; ty; ttr; ti; tf] =>
    match dec_nats ts, dec_nats ty,
          dec_list (dec_pair dec_nat (dec_list (dec_pair dec_osym dec_nats))) ttr,
          dec_nat ti, dec_nats tf with
    | Some s, Some y, Some tr, Some i, Some f => Some (mknfa s y tr i f)
    | _, _, _, _, _ => None
    end
  | _ => None
  end.

Definition enc_nfa (m : nfa) : itree :=
  L [enc_nats (n_states m); enc_nats (n_syms m);
     enc_list (enc_pair In_ (enc_list (enc_pair enc_osym enc_nats))) (n_trans m);
     In_ (n_init m); enc_nats (n_finals m)].

Definition enc_ostate (o : option nat) : itree := enc_opt In_ o.
