(* NFARegexBuilder of automata/regex/parser.py on ASTs, and NFA.from_regex.
   A fragment keeps what the builder keeps: the states that have a row in `_transitions`
   (in insertion order), the transitions as a list of edges (state, label, target)
   (label None = ""), the initial state, the final states; the itertools counter is threaded
   explicitly.  State names are fresh numbers; which fresh number a state gets is not
   observable, so copies are named by a fixed offset and product states by their position. *)
From Coq Require Import List Arith Bool.
From AV Require Import Base.Util Base.Closure Spec.Lang Spec.FA Spec.Regex
                       Model.RegexLex Model.RegexParse.
Import ListNotations.

Definition edge : Type := (nat * option nat * nat)%type.
Definition e_src (e : edge) : nat := fst (fst e).
Definition e_lab (e : edge) : option nat := snd (fst e).
Definition e_dst (e : edge) : nat := snd e.

Record frag := mkfrag {
  f_states : list nat; f_edges : list edge; f_init : nat; f_finals : list nat }.

Definition olab_eqb : option nat -> option nat -> bool := eqb_opt Nat.eqb.

(* transitions[q].get(l) as a list *)
Definition targets (E : list edge) (q : nat) (l : option nat) : list nat :=
  map e_dst (filter (fun e => Nat.eqb (e_src e) q && olab_eqb (e_lab e) l) E).

(* ---- literals ---- *)
Definition lit_eps (c : nat) : frag * nat := (mkfrag [c] [] c [c], S c).
Definition lit_sym (a c : nat) : frag * nat :=
  (mkfrag [c; S c] [(c, Some a, S c)] c [S c], S (S c)).
Definition wildcard (sigma : list nat) (c : nat) : frag * nat :=
  (mkfrag [c; S c] (map (fun a => (c, Some a, S c)) sigma) c [S c], S (S c)).

(* ---- union: fresh initial state with two empty-string edges ---- *)
Definition f_union (A B : frag) (c : nat) : frag * nat :=
  (mkfrag (f_states A ++ f_states B ++ [c])
          (f_edges A ++ f_edges B ++ [(c, None, f_init A); (c, None, f_init B)])
          c (f_finals A ++ f_finals B), S c).

(* ---- concatenate: finals of A --""--> initial of B ---- *)
Definition link (finals : list nat) (target : nat) : list edge :=
  map (fun q => (q, None, target)) finals.

Definition f_concat (A B : frag) : frag :=
  mkfrag (f_states A ++ f_states B)
         (f_edges A ++ f_edges B ++ link (f_finals A) (f_init B))
         (f_init A) (f_finals B).

(* ---- repeat(lo, hi), after the repair (no copy is final when the upper bound is 0) ----
   number_of_repetitions n = lo if hi is None else hi; max n 1 copies exist (copy 0 is the
   operand itself, copy j is the operand renamed by the offset j*k); consecutive copies are
   chained finals --""--> next initial; a fresh initial state points at copy 0; without an
   upper bound the last copy loops; copy j is final when lo <= j+1 <= n; the operand's
   initial state is final when lo = 0. *)
Definition shift_edge (d : nat) (e : edge) : edge := (e_src e + d, e_lab e, e_dst e + d).
Definition shiftf (d : nat) (A : frag) : frag :=
  mkfrag (map (fun q => q + d) (f_states A)) (map (shift_edge d) (f_edges A))
         (f_init A + d) (map (fun q => q + d) (f_finals A)).

Definition reps (lo : nat) (hi : option nat) : nat := match hi with None => lo | Some h => h end.
Definition copy_final (lo n j : nat) : bool := Nat.leb lo (S j) && Nat.leb (S j) n.

Definition f_repeat (c0 c : nat) (A : frag) (lo : nat) (hi : option nat) : frag * nat :=
  let n := reps lo hi in
  let m := Nat.max n 1 in
  let k := S c - c0 in
  let cp := fun j => shiftf (j * k) A in
  (mkfrag
     (flat_map (fun j => f_states (cp j)) (seq 0 m) ++ [c])
     (flat_map (fun j => f_edges (cp j)) (seq 0 m) ++
      flat_map (fun j => link (f_finals (cp j)) (f_init (cp (S j)))) (seq 0 (m - 1)) ++
      [(c, None, f_init A)] ++
      match hi with
      | None => link (f_finals (cp (m - 1))) (f_init (cp (m - 1)))
      | Some _ => []
      end)
     c
     (flat_map (fun j => if copy_final lo n j then f_finals (cp j) else []) (seq 0 m) ++
      (if Nat.eqb lo 0 then [f_init A] else [])),
   c0 + m * k).

(* ---- products: the pair (qa, qb) is named by its position ---- *)
Fixpoint index_of (x : nat) (l : list nat) : nat :=
  match l with
  | [] => 0
  | y :: r => if Nat.eqb x y then 0 else S (index_of x r)
  end.

Definition pair_name (A B : frag) (c : nat) (p : nat * nat) : nat :=
  c + index_of (fst p) (f_states A) * length (f_states B) + index_of (snd p) (f_states B).

Definition sym_labels (E : list edge) : list nat :=
  flat_map (fun e => match e_lab e with Some a => [a] | None => [] end) E.

(* intersection: successors of a product state, as the BFS loop computes them *)
Definition inter_succ (A B : frag) (syms : list nat) (p : nat * nat)
  : list (option nat * (nat * nat)) :=
  map (fun t => (None, (t, snd p))) (targets (f_edges A) (fst p) None) ++
  map (fun t => (None, (fst p, t))) (targets (f_edges B) (snd p) None) ++
  flat_map (fun s => map (fun tt => (Some s, tt))
                         (list_prod (targets (f_edges A) (fst p) (Some s))
                                    (targets (f_edges B) (snd p) (Some s)))) syms.

Definition pair_eqb : nat * nat -> nat * nat -> bool := eqb_pair Nat.eqb Nat.eqb.

Definition inter_reach (A B : frag) (syms : list nat) : option (list (nat * nat)) :=
  closure pair_eqb (fun p => map snd (inter_succ A B syms p))
          (S (length (f_states A) * length (f_states B))) [(f_init A, f_init B)].

Definition f_inter (A B : frag) (c : nat) : frag * nat :=
  let syms := set_of (sym_labels (f_edges A) ++ sym_labels (f_edges B)) in
  let nm := pair_name A B c in
  match inter_reach A B syms with
  | Some ps =>
    (mkfrag (map nm ps)
            (flat_map (fun p => map (fun lt => (nm p, fst lt, nm (snd lt))) (inter_succ A B syms p)) ps)
            (nm (f_init A, f_init B))
            (map nm (filter (fun p => memb (fst p) (f_finals A) && memb (snd p) (f_finals B)) ps)),
     c + length (f_states A) * length (f_states B))
  | None => (mkfrag [c] [] c [], S c)       (* out of fuel: excluded by a lemma *)
  end.

(* shuffle: full product of the rows *)
Definition out_edges (E : list edge) (q : nat) : list edge :=
  filter (fun e => Nat.eqb (e_src e) q) E.

Definition shuffle_succ (A B : frag) (p : nat * nat) : list (option nat * (nat * nat)) :=
  map (fun e => (e_lab e, (e_dst e, snd p))) (out_edges (f_edges A) (fst p)) ++
  map (fun e => (e_lab e, (fst p, e_dst e))) (out_edges (f_edges B) (snd p)).

Definition f_shuffle (A B : frag) (c : nat) : frag * nat :=
  let nm := pair_name A B c in
  let ps := list_prod (f_states A) (f_states B) in
  (mkfrag (map nm ps)
          (flat_map (fun p => map (fun lt => (nm p, fst lt, nm (snd lt))) (shuffle_succ A B p)) ps)
          (nm (f_init A, f_init B))
          (map nm (list_prod (f_finals A) (f_finals B))),
   c + length (f_states A) * length (f_states B)).

(* ---- the builder run over an AST (postfix evaluation order: left, right, operator) ---- *)
Fixpoint build (sigma : list nat) (r : re) (c : nat) : frag * nat :=
  match r with
  | REps => lit_eps c
  | RSym a => lit_sym a c
  | RAny => wildcard sigma c
  | RUnion r1 r2 =>
    let (A, c1) := build sigma r1 c in let (B, c2) := build sigma r2 c1 in f_union A B c2
  | RInter r1 r2 =>
    let (A, c1) := build sigma r1 c in let (B, c2) := build sigma r2 c1 in f_inter A B c2
  | RShuffle r1 r2 =>
    let (A, c1) := build sigma r1 c in let (B, c2) := build sigma r2 c1 in f_shuffle A B c2
  | RCat r1 r2 =>
    let (A, c1) := build sigma r1 c in let (B, c2) := build sigma r2 c1 in (f_concat A B, c2)
  | RStar r1 => let (A, c1) := build sigma r1 c in f_repeat c c1 A 0 None
  | RPlus r1 => let (A, c1) := build sigma r1 c in f_repeat c c1 A 1 None
  | ROpt r1 => let (A, c1) := build sigma r1 c in f_repeat c c1 A 0 (Some 1)
  | RRep r1 lo hi => let (A, c1) := build sigma r1 c in f_repeat c c1 A lo hi
  end.

(* ---- the NFA object: states = keys of the transitions, rows grouped by label ---- *)
Fixpoint olabels (ls : list (option nat)) : list (option nat) :=
  match ls with
  | [] => []
  | l :: r => if existsb (olab_eqb l) r then olabels r else l :: olabels r
  end.

Definition row_of (E : list edge) (q : nat) : list (option nat * list nat) :=
  map (fun l => (l, set_of (targets E q l))) (olabels (map e_lab (out_edges E q))).

Definition nfa_of (sigma : list nat) (F : frag) : nfa :=
  mknfa (f_states F) sigma (map (fun q => (q, row_of (f_edges F) q)) (f_states F))
        (f_init F) (f_finals F).

(* ---- NFA.from_regex ---- *)
Definition default_alphabet (cs : list nat) : list nat :=
  set_of (filter (fun c => negb (is_reserved c)) cs).

Definition symbols_ok (sigma : list nat) (F : frag) : bool :=
  forallb (fun e => match e_lab e with Some a => memb a sigma | None => true end) (f_edges F).

Definition sym_err {A} : res A := Err (Invalid 2).      (* InvalidSymbolError *)

Definition compile_re (sigma : list nat) (r : re) : res nfa :=
  let F := fst (build sigma r 0) in
  if symbols_ok sigma F then Ok (nfa_of sigma F) else sym_err.

Definition alphabet_of (cs : list nat) (alpha : option (list nat)) : res (list nat) :=
  match alpha with
  | None => Ok (default_alphabet cs)
  | Some s => if existsb is_reserved s then sym_err else Ok s
  end.

Definition compile (cs : list nat) (alpha : option (list nat)) : res nfa :=
  bind (alphabet_of cs alpha) (fun sigma =>
  bind (parse cs) (fun r => compile_re sigma r)).
