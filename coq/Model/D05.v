(* C05 dispatch: minimisation *)
From Coq Require Import List Arith NArith Bool.
From AV Require Import Base.Util Base.ITree Spec.Lang Spec.FA Model.Codec Model.Minimize.
Import ListNotations.

Definition enc_min (p : dfa * list (list nat)) : itree := L [enc_dfa (fst p); enc_list enc_nats (snd p)].

(* op 1: [dfa] minify               -> res [dfa, partition]
   op 2: [dfa] to_partial(minify)   -> res [dfa, partition]
   op 3: [dfa] to_partial(plain)    -> res dfa
   op 4: [dfa]                      -> [valid, is_trim] *)
Definition d05 (op : nat) (t : itree) : itree :=
  match op, dec_dfa t with
  | 1, Some m => enc_res enc_min (minify_full m)
  | 2, Some m => enc_res enc_min (to_partial_min_full m)
  | 3, Some m => enc_res enc_dfa (to_partial_plain m)
  | 4, Some m => L [Ib (valid_dfa m); Ib (is_trim m)]
  | _, _ => bad_input
  end.
