(* C05 dispatch: minimisation *)
From Coq Require Import List Arith NArith Bool.
From AV Require Import Base.Util Base.ITree Spec.Lang Spec.FA Model.Codec Model.Minimize Model.Hopcroft.
Import ListNotations.

Definition enc_min (p : dfa * list (list nat)) : itree := L [enc_dfa (fst p); enc_list enc_nats (snd p)].

(* op 1: [dfa] minify               -> res [dfa, partition]
   op 2: [dfa] to_partial(minify)   -> res [dfa, partition]
   op 3: [dfa] to_partial(plain)    -> res dfa
   op 4: [dfa]                      -> [valid, is_trim]
   op 5: [dfa, which (1 minify / 2 to_partial), mode, choices, symbol order, 0]
                                    -> res [partition, number of sets]   (Hopcroft mirror, given schedule)
   op 6: [dfa, which, mode, choices, symbol order, representative mode]
                                    -> res [dfa, partition]   (_minify entirely as coded, names = positions) *)
(* ---- the mirror model of the Hopcroft refinement on the wire ----
   a pop schedule is (mode, choices): the number c = choices[k] (0 when the list is exhausted) picks at
   pop number k, among the pending ids W (in the order they became pending),
     mode 0: the (c mod |W|)-th oldest   ([] = oldest first)
     mode 1: the (c mod |W|)-th newest   ([] = newest first)
     mode 2: the smallest id, mode 3 (or more): the largest id *)
Definition wire_sched (mode : nat) (choices : list nat) (no : nat) (W : list nat) : nat :=
  let c := nth no choices 0 in
  match mode with
  | 0 => nth (Nat.modulo c (length W)) W 0
  | 1 => nth (length W - 1 - Nat.modulo c (length W)) W 0
  | 2 => fold_right Nat.min (hd 0 W) W
  | _ => fold_right Nat.max 0 W
  end.

(* next(iter(eq)): 0 the first member, 1 the last, 2 (or more) the middle one *)
Definition wire_rep (mode : nat) (l : list nat) : nat :=
  match mode with
  | 0 => hd 0 l
  | 1 => last l 0
  | _ => nth (Nat.div (length l) 2) l 0
  end.

Definition kept_which (which : nat) (m : dfa) : res (list nat) :=
  match which with 1 => kept_minify m | _ => kept_live m end.

(* the final partition of the mirror model: [blocks without the trap, number of sets] *)
Definition hop_partition (m : dfa) (which mode : nat) (choices sord : list nat) : res (list (list nat) * nat) :=
  bind (kept_which which m) (fun K =>
  match h_hopcroft m K (wire_sched mode choices) sord with
  | None => Err Fuel
  | Some P => Ok (h_blocks m K P, length (p_ids P))
  end).

Definition hop_coded (m : dfa) (which mode : nat) (choices sord : list nat) (rmode : nat)
  : res (dfa * list (list nat)) :=
  bind (kept_which which m) (fun K => cminify_core m K (wire_sched mode choices) sord (wire_rep rmode)).

Definition dec_hop (t : itree) : option (dfa * nat * nat * list nat * list nat * nat) :=
  match t with
  | L [d; w; mo; ch; so; rm] =>
    match dec_dfa d, dec_nat w, dec_nat mo, dec_nats ch, dec_nats so, dec_nat rm with
    | Some m, Some which, Some mode, Some choices, Some sord, Some rmode => Some (m, which, mode, choices, sord, rmode)
    | _, _, _, _, _, _ => None
    end
  | _ => None
  end.

Definition enc_part (p : list (list nat) * nat) : itree := L [enc_list enc_nats (fst p); In_ (snd p)].

Definition d05h (op : nat) (t : itree) : itree :=
  match dec_hop t with
  | Some (m, which, mode, choices, sord, rmode) =>
    match op with
    | 5 => enc_res enc_part (hop_partition m which mode choices sord)
    | _ => enc_res enc_min (hop_coded m which mode choices sord rmode)
    end
  | None => bad_input
  end.

Definition d05 (op : nat) (t : itree) : itree :=
  match op, dec_dfa t with
  | 1, Some m => enc_res enc_min (minify_full m)
  | 2, Some m => enc_res enc_min (to_partial_min_full m)
  | 3, Some m => enc_res enc_dfa (to_partial_plain m)
  | 4, Some m => L [Ib (valid_dfa m); Ib (is_trim m)]
  | 5, _ => d05h 5 t
  | 6, _ => d05h 6 t
  | _, _ => bad_input
  end.
