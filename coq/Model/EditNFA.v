(* C16 - mirror model of NFA.edit_distance (automata/fa/nfa.py, the (position, errors) grid).
   The Python state (i, e) - i reference symbols consumed, e errors spent - is the number
   i * (k+1) + e.  No proofs here. *)
From Coq Require Import List Arith ZArith Bool.
From AV Require Import Base.Util Spec.Lang Spec.FA.
Import ListNotations.

Definition row := list (option nat * list nat).

(* add_transition: start_state_dict.setdefault(symbol, set()).add(end_state) *)
Fixpoint row_add (r : row) (a : option nat) (t : nat) : row :=
  match r with
  | [] => [(a, [t])]
  | (b, ts) :: r' => if eqb_opt Nat.eqb a b then (b, set_add t ts) :: r'
                     else (b, ts) :: row_add r' a t
  end.

(* add_any_transition: the same for every symbol of the alphabet *)
Definition row_add_any (syms : list nat) (r : row) (t : nat) : row :=
  fold_left (fun r a => row_add r (Some a) t) syms r.

Section Grid.
  Variable syms : list nat.
  Variable k : nat.                 (* max_edit_distance *)
  Variables ins del sub : bool.

  Definition st (i e : nat) : nat := i * S k + e.

  (* body of the first loop, for position i holding reference symbol c, e errors so far *)
  Definition grid_row (i c e : nat) : row :=
    let r0 := row_add [] (Some c) (st (S i) e) in                       (* correct character *)
    if Nat.ltb e k then
      let r1 := if ins then row_add_any syms r0 (st i (S e)) else r0 in   (* insertion *)
      let r2 := if del then row_add r1 None (st (S i) (S e)) else r1 in   (* deletion *)
      if sub then row_add_any syms r2 (st (S i) (S e)) else r2            (* substitution *)
    else r0.

  (* body of the second loop: after the whole reference only insertions remain *)
  Definition last_row (i e : nat) : row :=
    if ins && Nat.ltb e k then row_add_any syms [] (st i (S e)) else [].

  (* both loops: positions in order, each with e = 0 .. k; the position after the last
     reference symbol comes last *)
  Fixpoint grid_rows (i : nat) (ref : list nat) : list (nat * row) :=
    match ref with
    | [] => map (fun e => (st i e, last_row i e)) (seq 0 (S k))
    | c :: ref' => map (fun e => (st i e, grid_row i c e)) (seq 0 (S k)) ++ grid_rows (S i) ref'
    end.

  (* product(range(len(ref)+1), range(k+1)) *)
  Definition grid_states (n : nat) : list nat :=
    flat_map (fun i => map (st i) (seq 0 (S k))) (seq 0 (S n)).

  Definition grid_nfa (ref : list nat) : nfa :=
    let n := length ref in
    mknfa (grid_states n) syms (grid_rows 0 ref) (st 0 0) (map (st n) (seq 0 (S k))).
End Grid.

(* the interface: a negative bound or no enabled kind is refused with ValueError; the NFA
   constructor then validates the definition (a reference symbol outside the alphabet is the
   one rule that can fail: InvalidSymbolError = Invalid 2) *)
Definition edit_nfa (syms : list nat) (ref : list nat) (k : Z) (ins del sub : bool) : res nfa :=
  if Z.ltb k 0 then Err ValueErr
  else if negb (ins || del || sub) then Err ValueErr
  else if negb (forallb (fun c => memb c syms) ref) then Err (Invalid 2)
  else Ok (grid_nfa syms (Z.to_nat k) ins del sub ref).
