(* C06 dispatch: [dfaA, dfaB] -> the ten comparison answers; [dfa] -> isempty, isfinite;
   op 3: [dfaA, dfaB] -> == by the Hopcroft-Karp mirror model (Model/HK.v) under two schedules *)
From Coq Require Import List Arith NArith Bool.
From AV Require Import Base.Util Base.ITree Spec.Lang Spec.FA Model.Codec Model.Decide Model.Product Model.HK.
Import ListNotations.

(* Hopcroft-Karp pair states (state or None, operand index) on the wire: [index, [] | [q]] *)
Definition enc_del (e : option nat + option nat) : itree :=
  match e with inl q => L [I 0%N; enc_opt In_ q] | inr q => L [I 1%N; enc_opt In_ q] end.
Definition dec_del (t : itree) : option (option nat + option nat) :=
  match t with
  | L [I i; q] =>
    match dec_opt dec_nat q with
    | Some o => if N.eqb i 0 then Some (inl o) else if N.eqb i 1 then Some (inr o) else None
    | None => None
    end
  | _ => None
  end.

Definition d06 (op : nat) (t : itree) : itree :=
  match op, t with
  | 1, L [ta; tb] =>
    match dec_dfa ta, dec_dfa tb with
    | Some a, Some b =>
      L [enc_res Ib (eq_m a b); enc_res Ib (ne_m a b); enc_res Ib (le_m a b); enc_res Ib (lt_m a b);
         enc_res Ib (ge_m a b); enc_res Ib (gt_m a b); enc_res Ib (issubset_m a b);
         enc_res Ib (issuperset_m a b); enc_res Ib (isdisjoint_m a b)]
    | _, _ => bad_input
    end
  | 2, ta =>
    match dec_dfa ta with
    | Some a => L [enc_res Ib (isempty_m a); enc_res Ib (isfinite_m a)]
    | None => bad_input
    end
  | 3, L [ta; tb] =>   (* DFA.__eq__ as coded: record symbol order / first root wins ties; reversed order / second wins *)
    match dec_dfa ta, dec_dfa tb with
    | Some a, Some b =>
      L [enc_res Ib (hk_eq a b); enc_res Ib (hk_eq_gen (fun _ _ => false) (rev (d_syms a)) a b)]
    | _, _ => bad_input
    end
  | 4, L [ta; tb; ts; tbl_t] =>   (* DFA.__eq__ under a given schedule: [A, B, symbol order, ordered root pairs on which the
                                  first root survives a tie] -> [answer, the sequence of union calls] *)
    match dec_dfa ta, dec_dfa tb, dec_nats ts, dec_list (dec_pair dec_del dec_del) tbl_t with
    | Some a, Some b, Some syms, Some tbl =>
      let r := hk_eq_log (tie_of_table (eqb_opt Nat.eqb) (eqb_opt Nat.eqb) tbl) syms a b in
      L [enc_res Ib (fst r); enc_list (enc_pair enc_del enc_del) (snd r)]
    | _, _, _, _ => bad_input
    end
  | _, _ => bad_input
  end.
