(* C06 dispatch: [dfaA, dfaB] -> the ten comparison answers; [dfa] -> isempty, isfinite;
   op 3: [dfaA, dfaB] -> == by the Hopcroft-Karp mirror model (Model/HK.v) under two schedules *)
From Coq Require Import List Arith NArith Bool.
From AV Require Import Base.Util Base.ITree Spec.Lang Spec.FA Model.Codec Model.Decide Model.Product Model.HK.
Import ListNotations.

Definition d06 (op : nat) (t : itree) : itree :=
  match op, t with
  | 1, L [ta; tb] =>
    match dec_dfa ta, dec_dfa tb with
    | Some a, Some b =>
      L [enc_res Ib (eq_m a b); enc_res Ib (ne_m a b); enc_res Ib (le_m a b); enc_res Ib (lt_m a b);
         enc_res Ib (ge_m a b); enc_res Ib (gt_m a b); enc_res Ib (issubset_m a b);
         enc_res Ib (issuperset_m a b); enc_res Ib (isdisjoint_m a b)]
    | _, _ => bad_input
    end
  | 2, ta =>
    match dec_dfa ta with
    | Some a => L [enc_res Ib (isempty_m a); enc_res Ib (isfinite_m a)]
    | None => bad_input
    end
  | 3, L [ta; tb] =>   (* DFA.__eq__ as coded: record symbol order / first root wins ties; reversed order / second wins *)
    match dec_dfa ta, dec_dfa tb with
    | Some a, Some b =>
      L [enc_res Ib (hk_eq a b); enc_res Ib (hk_eq_gen (fun _ _ => false) (rev (d_syms a)) a b)]
    | _, _ => bad_input
    end
  | _, _ => bad_input
  end.
