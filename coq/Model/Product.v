(* The lazy cross product of two DFAs (DFA._cross_product) with per-side trap (None)
   and relevance flags, the state search (DFA._find_state), and the decisions built on
   them (issubset, issuperset, isdisjoint, isempty, ==, <, >, ...). *)
From Coq Require Import List Arith Bool.
From AV Require Import Base.Util Base.Closure Spec.Lang Spec.FA Model.Decide.
Import ListNotations.

Definition pst : Type := option nat * option nat.
Definition peqb : pst -> pst -> bool := eqb_pair (eqb_opt Nat.eqb) (eqb_opt Nat.eqb).

(* lhs.transitions.get(q_a, {}) - the trap state has no row *)
Definition prow (m : dfa) (x : option nat) : list (nat * nat) :=
  match x with
  | Some q => match d_row m q with Some r => r | None => [] end
  | None => []
  end.

Definition isnone {A} (o : option A) : bool := match o with None => true | Some _ => false end.

(* expand_state_fn: symbols = union of the two rows' keys; a symbol is skipped when an
   irrelevant side has no transition on it; a missing target is that side's trap *)
Definition cross_expand (A B : dfa) (lrel rrel : bool) (p : pst) : list (nat * pst) :=
  let ra := prow A (fst p) in
  let rb := prow B (snd p) in
  flat_map (fun c =>
              let ta := assoc c ra in
              let tb := assoc c rb in
              if (negb lrel && isnone ta) || (negb rrel && isnone tb) then [] else [(c, (ta, tb))])
           (set_of (map fst ra ++ map fst rb)).

Definition cross_fuel (A B : dfa) : nat := S (S (length (d_states A)) * S (length (d_states B))).

Definition cross_states (A B : dfa) (lrel rrel : bool) : res (list pst) :=
  ores (closure peqb (fun p => map snd (cross_expand A B lrel rrel p)) (cross_fuel A B)
                [(Some (d_init A), Some (d_init B))]).

(* _find_state: is a target state reachable? *)
Definition find_state (A B : dfa) (lrel rrel : bool) (target : pst -> bool) : res bool :=
  bind (cross_states A B lrel rrel) (fun ps => Ok (existsb target ps)).

(* SymbolMismatchError when the alphabets differ (as sets) *)
Definition same_syms (A B : dfa) : bool := subsetb (d_syms A) (d_syms B) && subsetb (d_syms B) (d_syms A).

Definition guard_syms {T} (A B : dfa) (r : res T) : res T :=
  if same_syms A B then r else Err Mismatch.

Definition issubset_m (A B : dfa) : res bool :=
  guard_syms A B
    (bind (find_state A B false true (fun p => ofinal A (fst p) && negb (ofinal B (snd p))))
          (fun b => Ok (negb b))).

Definition issuperset_m (A B : dfa) : res bool := issubset_m B A.

Definition isdisjoint_m (A B : dfa) : res bool :=
  guard_syms A B
    (bind (find_state A B false false (fun p => ofinal A (fst p) && ofinal B (snd p)))
          (fun b => Ok (negb b))).

(* __eq__: Hopcroft-Karp union-find; the boolean is uniquely determined, so the model is the
   verified comparator (specification model, DESIGN 3.1).  Different alphabets: NotImplemented,
   Python then answers by identity; modelled as Err Mismatch and not generated. *)
Definition eq_m (A B : dfa) : res bool :=
  guard_syms A B (bind (dfa_diff A B) (fun r => Ok (isnone r))).
Definition ne_m (A B : dfa) : res bool := bind (eq_m A B) (fun b => Ok (negb b)).
Definition le_m := issubset_m.
Definition ge_m := issuperset_m.
(* self <= other and self != other (short-circuit: != is not evaluated when <= is false) *)
Definition lt_m (A B : dfa) : res bool :=
  bind (le_m A B) (fun b => if b then ne_m A B else Ok false).
Definition gt_m (A B : dfa) : res bool :=
  bind (ge_m A B) (fun b => if b then ne_m A B else Ok false).

(* isempty: no final state reachable from the initial state along the rows *)
Definition reach_states (m : dfa) : res (list nat) :=
  ores (closure Nat.eqb (fun q => map snd (prow m (Some q))) (S (length (d_states m))) [d_init m]).
Definition isempty_m (m : dfa) : res bool :=
  bind (reach_states m) (fun qs => Ok (negb (existsb (fun q => memb q (d_finals m)) qs))).

(* isfinite: the accessible-and-coaccessible subgraph has no cycle (peeling states that have
   no successor inside the remaining set empties it); the empty language counts as finite *)
Definition row_targets (m : dfa) (q : nat) : list nat := map snd (prow m (Some q)).
Definition coreach_states (m : dfa) : res (list nat) :=
  ores (closure Nat.eqb
          (fun q => filter (fun p => memb q (row_targets m p)) (d_states m))
          (S (length (d_states m))) (d_finals m)).
Definition useful_states (m : dfa) : res (list nat) :=
  bind (reach_states m) (fun acc => bind (coreach_states m) (fun co => Ok (filter (fun q => memb q co) acc))).
Fixpoint peel (fuel : nat) (succs : nat -> list nat) (S : list nat) : list nat :=
  match fuel with
  | 0 => S
  | S f => peel f succs (filter (fun q => existsb (fun t => memb t S) (succs q)) S)
  end.
Definition isfinite_m (m : dfa) : res bool :=
  bind (useful_states m) (fun U => Ok (match peel (length U) (row_targets m) U with [] => true | _ => false end)).
