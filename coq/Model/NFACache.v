(* C20 for NFA instances: the per-instance memo state and the public queries as transitions.

   What an NFA instance remembers (automata/fa/nfa.py, pinned commit):
     - `_get_lambda_closures` (nfa.py 105-134) is the ONLY `cached_method` of the class; nothing else on
       an NFA instance is memoised (FA / Automaton have no caches; `__slots__` carries `__dict__` only
       so that cached_method can store its per-instance lru_cache there).  cached_method
       (site-packages/cached_method.py): the first attribute access creates `lru_cache(maxsize=None)`
       around the weakly bound method and stores it in `instance.__dict__`; the method takes no
       arguments, so the cache holds either nothing or the one table.  lru_cache does not remember
       exceptions.  The table is computed for ALL states at the first call, one breadth-first search
       over the empty-string edges per state (`get_reachable_nodes(lambda_graph, [state])`,
       base/utils.py 216-240) - that is `FARun.nfa_closures` (mapM of `eclosure`, the deque search
       `Closure.bfs`), the C01 model.
     - Results of DFA.from_nfa / eliminate_lambda / reverse are NEW objects (their own empty
       `__dict__`; a new DFA's `_count_cache` / `_word_cache` are set to [] in DFA.__init__, dfa.py
       101-133); they share no cache with the operand.  Their own histories are the DFA half of C20.

   State of one instance: `memo = option table` (None: lru_cache empty).  Several instances are
   live in a history (`a == b` calls `_get_lambda_closures` on BOTH operands, nfa.py 1037-1038), so
   the state of the model is one memo per instance of a fixed list of definitions and every query
   names the instance(s) it is called on.

   Which query touches the memo (read off the code):
     accepts_input(w)            read_input -> read_input_stepwise, first `next` (nfa.py 441)       yes
     read_input_stepwise(w)[:n]  a generator: n = 0 never runs the body; n > 0 as above               n > 0
     a == b                      alphabets compared first (1033: NotImplemented, nothing touched),
                                 then a's table, then b's table (1037-1038)                           both
     DFA.from_nfa(a, ..)         dfa.py 2534-2536 before _expand_dfa                                  yes
     a.eliminate_lambda()        nfa.py 348                                                           yes
     a.reverse()                 nfa.py 641-678: never                                                no

   The answers are the existing stateless models with the closure function abstracted
   (`ec : nat -> list nat`): instantiated with `Decide.eclose m` / `NFAOps.ecl m` they ARE the
   C07/C09/C08 models (by computation: Proofs/NFACache.v `*_e_eclose`), instantiated with a lookup
   in the cached table (`tlook cl`) they are what the code does after the first call.  A lookup of a
   name without an entry is a KeyError in Python; it cannot happen for a valid NFA (every looked-up
   name is a transition target or the initial state) and is modelled as the empty set in the
   total lookups and as `Err KeyErr` in the C01 reader (`cl_lookup`). *)
From Coq Require Import List Arith Bool.
From AV Require Import Base.Util Base.Closure Spec.Lang Spec.FA Model.FARun Model.Decide Model.Product
     Model.Build Model.Subset Model.Minimize Model.HK Model.NFAOps.
Import ListNotations.

Definition table := list (nat * list nat).
Definition memo := option table.

(* self._get_lambda_closures(): a hit returns the stored table; a miss runs the method and stores
   the result if it returned (lru_cache stores nothing when the call raises) *)
Definition get_closures (m : nfa) (c : memo) : memo * res table :=
  match c with
  | Some cl => (c, Ok cl)
  | None => match nfa_closures m with
            | Ok cl => (Some cl, Ok cl)
            | Err e => (None, Err e)
            end
  end.

(* lambda_closures[q] as a total function *)
Definition tlook (cl : table) (q : nat) : list nat :=
  match assoc q cl with Some c => c | None => [] end.

(* ---- the stateless models, closure function abstracted ---- *)
Section WithEc.
  Variable ec : nat -> list nat.

  (* Decide.nset_step / nset_init, HK.nset_final_cl *)
  Definition nset_step_e (m : nfa) (S : list nat) (a : nat) : list nat :=
    set_of (flat_map (fun q => flat_map ec (n_targets m q (Some a))) S).
  Definition nset_init_e (m : nfa) : list nat := ec (n_init m).
  Definition nset_final_cl_e (m : nfa) (S : list nat) : bool :=
    existsb (fun q => existsb (fun p => memb p (n_finals m)) (ec q)) S.

  (* Subset.det_succ / determinize_m *)
  Definition det_succ_e (m : nfa) (S : list nat) : list (nat * list nat) :=
    flat_map (fun c => match nset_step_e m S c with [] => [] | t => [(c, t)] end) (set_of (n_syms m)).
  Definition determinize_e (m : nfa) : res dfa :=
    build_dfa (list nat) (eqb_list Nat.eqb) (det_succ_e m) (nset_final m) (n_syms m) (det_fuel m) (nset_init_e m).

  (* NFAOps._eliminate_lambda *)
  Definition encl_e (q : nat) : list nat := filter (fun p => negb (Nat.eqb p q)) (ec q).
  Definition elim_next_e (A : nfa) (q a : nat) : list nat :=
    flat_map (fun p => flat_map ec (n_targets A p (Some a))) (encl_e q).
  Definition elim_new_syms_e (A : nfa) (q : nat) : list nat :=
    filter (fun a => nonempty (elim_next_e A q a)) (n_syms A).
  Definition elim_row_e (A : nfa) (q : nat) : xrow nat :=
    let r := arow A q in
    tab (filter is_some (map fst r) ++ map Some (elim_new_syms_e A q))
        (fun a => match a with
                  | Some s => xtg r a ++ elim_next_e A q s
                  | None => []
                  end).
  Definition elim_rowof_e (A : nfa) (q : nat) : option (xrow nat) :=
    if is_some (assoc q (n_trans A)) || nonempty (elim_new_syms_e A q) then Some (elim_row_e A q) else None.
  Definition elim_finals_e (A : nfa) : list nat :=
    fold_left (fun acc q => if existsb (fun p => memb p acc) (encl_e q) then q :: acc else acc)
              (n_states A) (n_finals A).
  Definition elim_parts_e (A : nfa) : res eparts :=
    match closure Nat.eqb (fun q => row_targets (elim_row_e A q)) (S (length (n_states A))) [n_init A] with
    | None => Err Fuel
    | Some reach =>
      let nf := elim_finals_e A in
      Ok (mkeparts reach (elim_rowof_e A) (filter (fun q => memb q nf) reach))
    end.
  Definition nfa_eliminate_lambda_e (A : nfa) : res nfa :=
    bind (elim_parts_e A) (fun e =>
      check_nfa (assemble idn (e_states e) (n_syms A) (e_rowof e) (n_init A) (e_finals e))).
End WithEc.

(* HK.nfa_hk_eq, one closure function per operand *)
Definition nfa_hk_eq_e (ecA ecB : nat -> list nat) (A B : nfa) : res bool :=
  if nsame_syms A B
  then hk_run_forest (list nat) (list nat) (eqb_list Nat.eqb) (eqb_list Nat.eqb)
              (nset_step_e ecA A) (nset_step_e ecB B) (nset_final_cl_e ecA A) (nset_final_cl_e ecB B)
              (fun _ _ => true) (n_syms A)
              (nfa_hk_fuel A B) (nset_init_e ecA A) (nset_init_e ecB B)
  else Err Mismatch.

(* ---- the C01 reader with the table given (FARun.nfa_stepwise after its first line) ---- *)
Definition nfa_stepwise_cl (m : nfa) (cl : table) (w : word) : list (list nat) * res (list nat) :=
  match cl_lookup cl (n_init m) with
  | Err e => ([], Err e)
  | Ok c0 => let (ys, o) := nfa_steps m cl c0 w in (c0 :: ys, nfa_check m o)
  end.

(* list(itertools.islice(gen, n)) of a generator that yields ys and then ends as o: the (n+1)-th item
   is never requested, so how the generator ends is seen only when n exceeds the number of yields *)
Definition cut_gen {A B} (ys : list A) (o : res B) (n : nat) : res (list A) :=
  if Nat.leb n (length ys) then Ok (firstn n ys)
  else match o with Ok _ => Ok ys | Err e => Err e end.

(* DFA.from_nfa(.., minify): _expand_dfa on the subset graph, then (minify) the minimal partial DFA;
   retain_names changes state names only, which no answer below depends on *)
Definition from_nfa_e (ec : nat -> list nat) (m : nfa) (minify : bool) : res dfa :=
  bind (determinize_e ec m) (fun d => if minify then to_partial_min d else Ok d).

(* ---- queries and answers ---- *)
Inductive nquery :=
| NAccepts (i : nat) (w : word)
| NStepwise (i : nat) (w : word) (n : nat)
| NEq (i j : nat)
| NFromNfa (i : nat) (minify retain : bool)
| NElim (i : nat)
| NReverse (i : nat).

Inductive nanswer :=
| NABool (b : bool)
| NASets (l : list (list nat))
| NADfa (d : dfa)
| NANfa (n : nfa)
| NAErr (e : err)
| NABad.                       (* the query names an instance that does not exist *)

Definition ans_of {A} (f : A -> nanswer) (r : res A) : nanswer :=
  match r with Ok x => f x | Err e => NAErr e end.

(* what each query answers once the table(s) are at hand *)
Definition ans_accepts (m : nfa) (cl : table) (w : word) : nanswer :=
  ans_of NABool (accepts_of (snd (nfa_stepwise_cl m cl w))).
Definition ans_stepwise (m : nfa) (cl : table) (w : word) (n : nat) : nanswer :=
  let (ys, o) := nfa_stepwise_cl m cl w in ans_of NASets (cut_gen ys o n).
Definition ans_eq (A B : nfa) (cla clb : table) : nanswer :=
  ans_of NABool (nfa_hk_eq_e (tlook cla) (tlook clb) A B).
Definition ans_from_nfa (m : nfa) (cl : table) (minify : bool) : nanswer :=
  ans_of NADfa (from_nfa_e (tlook cl) m minify).
Definition ans_elim (m : nfa) (cl : table) : nanswer :=
  ans_of NANfa (nfa_eliminate_lambda_e (tlook cl) m).
Definition ans_reverse (m : nfa) : nanswer := ans_of NANfa (nfa_reverse m).

Fixpoint set_nth {A} (i : nat) (x : A) (l : list A) : list A :=
  match l, i with
  | [], _ => []
  | _ :: r, 0 => x :: r
  | y :: r, S j => y :: set_nth j x r
  end.

(* one call of `defs[i]._get_lambda_closures()` in state st, then k on the table *)
Definition with_closures (defs : list nfa) (st : list memo) (i : nat)
           (k : list memo -> nfa -> table -> list memo * nanswer) : list memo * nanswer :=
  match nth_error defs i, nth_error st i with
  | Some m, Some c =>
    let (c', r) := get_closures m c in
    let st' := set_nth i c' st in
    match r with
    | Ok cl => k st' m cl
    | Err e => (st', NAErr e)
    end
  | _, _ => (st, NABad)
  end.

Definition nstep (defs : list nfa) (st : list memo) (q : nquery) : list memo * nanswer :=
  match q with
  | NAccepts i w => with_closures defs st i (fun st' m cl => (st', ans_accepts m cl w))
  | NStepwise i w n =>
    match n with
    | 0 => match nth_error defs i with Some _ => (st, NASets []) | None => (st, NABad) end
    | S _ => with_closures defs st i (fun st' m cl => (st', ans_stepwise m cl w n))
    end
  | NEq i j =>
    match nth_error defs i, nth_error defs j with
    | Some A, Some B =>
      if nsame_syms A B
      then with_closures defs st i (fun st1 _ cla =>
             with_closures defs st1 j (fun st2 _ clb => (st2, ans_eq A B cla clb)))
      else (st, NAErr Mismatch)
    | _, _ => (st, NABad)
    end
  | NFromNfa i minify _ => with_closures defs st i (fun st' m cl => (st', ans_from_nfa m cl minify))
  | NElim i => with_closures defs st i (fun st' m cl => (st', ans_elim m cl))
  | NReverse i => match nth_error defs i with Some m => (st, ans_reverse m) | None => (st, NABad) end
  end.

(* fresh instances *)
Definition fresh_memos (defs : list nfa) : list memo := map (fun _ => None) defs.

Definition nrun_history (defs : list nfa) (st : list memo) (qs : list nquery) : list memo :=
  fold_left (fun s q => fst (nstep defs s q)) qs st.

Fixpoint nanswers (defs : list nfa) (st : list memo) (qs : list nquery) : list nanswer :=
  match qs with
  | [] => []
  | q :: r => snd (nstep defs st q) :: nanswers defs (fst (nstep defs st q)) r
  end.

(* the states passed through (after each query), for the harness: which memos are filled *)
Fixpoint nstates (defs : list nfa) (st : list memo) (qs : list nquery) : list (list memo) :=
  match qs with
  | [] => []
  | q :: r => fst (nstep defs st q) :: nstates defs (fst (nstep defs st q)) r
  end.

(* ---- the stateless answers: every table computed from scratch at every use, no state ---- *)
Definition pure_with (defs : list nfa) (i : nat) (k : nfa -> table -> nanswer) : nanswer :=
  match nth_error defs i with
  | Some m => match nfa_closures m with Ok cl => k m cl | Err e => NAErr e end
  | None => NABad
  end.

Definition npure (defs : list nfa) (q : nquery) : nanswer :=
  match q with
  | NAccepts i w => pure_with defs i (fun m cl => ans_accepts m cl w)
  | NStepwise i w n =>
    match n with
    | 0 => match nth_error defs i with Some _ => NASets [] | None => NABad end
    | S _ => pure_with defs i (fun m cl => ans_stepwise m cl w n)
    end
  | NEq i j =>
    match nth_error defs i, nth_error defs j with
    | Some A, Some B =>
      if nsame_syms A B
      then pure_with defs i (fun _ cla => pure_with defs j (fun _ clb => ans_eq A B cla clb))
      else NAErr Mismatch
    | _, _ => NABad
    end
  | NFromNfa i minify _ => pure_with defs i (fun m cl => ans_from_nfa m cl minify)
  | NElim i => pure_with defs i (fun m cl => ans_elim m cl)
  | NReverse i => match nth_error defs i with Some m => ans_reverse m | None => NABad end
  end.

(* the same answers through the existing models of C01 / C09 / C07 / C08 (no table anywhere) *)
Definition spec_answer (defs : list nfa) (q : nquery) : nanswer :=
  match q with
  | NAccepts i w =>
    match nth_error defs i with Some m => ans_of NABool (nfa_accepts m w) | None => NABad end
  | NStepwise i w n =>
    match nth_error defs i with
    | Some m => let (ys, o) := nfa_stepwise m w in ans_of NASets (cut_gen ys o n)
    | None => NABad
    end
  | NEq i j =>
    match nth_error defs i, nth_error defs j with
    | Some A, Some B => ans_of NABool (nfa_hk_eq A B)
    | _, _ => NABad
    end
  | NFromNfa i minify _ =>
    match nth_error defs i with
    | Some m => ans_of NADfa (bind (determinize_m m) (fun d => if minify then to_partial_min d else Ok d))
    | None => NABad
    end
  | NElim i => match nth_error defs i with Some m => ans_of NANfa (nfa_eliminate_lambda m) | None => NABad end
  | NReverse i => match nth_error defs i with Some m => ans_reverse m | None => NABad end
  end.
