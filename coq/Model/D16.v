(* C16 dispatch. *)
From Coq Require Import List Arith NArith ZArith Bool.
From AV Require Import Base.Util Base.ITree Spec.Lang Spec.FA Model.Codec Model.Decide Model.EditNFA.
Import ListNotations.

(* integer: [0, n] = n, [1, n] = -n *)
Definition dec_Z (t : itree) : option Z :=
  match t with
  | L [I 0%N; I n] => Some (Z.of_N n)
  | L [I 1%N; I n] => Some (Z.opp (Z.of_N n))
  | _ => None
  end.

(* nfa_diff of Model/Decide.v with the exploration budget as an argument: its built-in budget
   2^|A| * 2^|B| is a unary number in the extracted code and cannot be built for the 20-30 state
   grids compared here.  Same exploration (gdiff); too small a budget answers Err Fuel. *)
Definition nfa_diff_budget (fuel : nat) (A B : nfa) : res (option word) :=
  ores (gdiff (list nat) (list nat) (eqb_list Nat.eqb) (eqb_list Nat.eqb)
              (nset_step A) (nset_step B) (nset_final A) (nset_final B)
              (set_union (n_syms A) (n_syms B)) fuel (nset_init A) (nset_init B)).

(* op 1: [syms, ref, k, ins, del, sub] -> res nfa
   op 2: [syms, ref, k, ins, del, sub, implNFA, words, budget] ->
           res [valid model, valid impl, nfa_diff_budget budget model impl, [model accepts w ...]] *)
Definition d16 (op : nat) (t : itree) : itree :=
  match op, t with
  | 1, L [ts; tr; tk; ti; td; tu] =>
    match dec_nats ts, dec_word tr, dec_Z tk, dec_bool ti, dec_bool td, dec_bool tu with
    | Some s, Some r, Some k, Some i, Some d, Some u => enc_res enc_nfa (edit_nfa s r k i d u)
    | _, _, _, _, _, _ => bad_input
    end
  | 2, L [ts; tr; tk; ti; td; tu; tn; tw; tf] =>
    match dec_nats ts, dec_word tr, dec_Z tk, dec_bool ti, dec_bool td, dec_bool tu,
          dec_nfa tn, dec_list dec_word tw, dec_nat tf with
    | Some s, Some r, Some k, Some i, Some d, Some u, Some impl, Some ws, Some fuel =>
      enc_res (fun m => L [Ib (valid_nfa m); Ib (valid_nfa impl);
                           enc_res (enc_opt enc_nats) (nfa_diff_budget fuel m impl);
                           enc_list Ib (map (nfa_acc m) ws)])
              (edit_nfa s r k i d u)
    | _, _, _, _, _, _, _, _, _ => bad_input
    end
  | _, _ => bad_input
  end.
