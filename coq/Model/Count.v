(* C13: executable models of the counting / enumeration / length / sampling queries of
   automata/fa/dfa.py.

   Mirror models (decision by decision):
     cnt   - _populate_count_cache_up_to_len / count_words_of_length: level 0 is 1 on final
             states (defaultdict(int): 0 elsewhere), level i is the sum of level i-1 over the
             row's targets (`transitions[state].values()`).
     wl    - _populate_word_cache_up_to_len / words_of_length: level 0 is [""] on final states,
             level i walks the row's symbols in sorted order and prefixes the symbol.
     min_len - minimum_word_length: breadth-first layers from the initial state, the depth of the
             first layer holding a final state; EmptyLanguageException when the search dies out.
     cardinality, iter_upto (after the repair: an empty language yields nothing), random_word
             (count-weighted unranking over `transition.items()` in the row's stored order, the
             randint draws passed in explicitly), isempty, isfinite.
   Specification model: max_len - networkx (digraph, reachability, dag_longest_path_length) is
     outside the model, so the longest path / "None on a cycle" of the accessible and
     co-accessible part is computed by layers of that part (a layer at depth |Q| means a cycle). *)
From Coq Require Import List Arith NArith Bool.
From AV Require Import Base.Util Base.Closure Spec.Lang Spec.FA.
Import ListNotations.

Definition row_of (m : dfa) (q : nat) : list (nat * nat) :=
  match d_row m q with Some r => r | None => [] end.
Definition targets (m : dfa) (q : nat) : list nat := map snd (row_of m q).
Definition is_final (m : dfa) (q : nat) : bool := memb q (d_finals m).

Definition Nsum (l : list N) : N := fold_right N.add 0%N l.

(* ---- counts ---- *)
Fixpoint cnt (m : dfa) (k : nat) (q : nat) : N :=
  match k with
  | 0 => if is_final m q then 1%N else 0%N
  | S k' => Nsum (map (fun p => cnt m k' (snd p)) (row_of m q))
  end.

(* ---- word lists: sorted(lookup.keys()), then transitions[state][symbol] ---- *)
Definition row_syms (m : dfa) (q : nat) : list nat := set_of (map fst (row_of m q)).

Fixpoint wl (m : dfa) (k : nat) (q : nat) : list word :=
  match k with
  | 0 => if is_final m q then [[]] else []
  | S k' => flat_map (fun a => match d_delta m q a with
                               | Some t => map (cons a) (wl m k' t)
                               | None => []
                               end) (row_syms m q)
  end.

(* ---- reachability helpers ---- *)
Definition of_opt {A} (o : option A) : res A := match o with Some x => Ok x | None => Err Fuel end.

Definition reach_from (m : dfa) (q : nat) : res (list nat) :=
  of_opt (closure Nat.eqb (targets m) (S (length (d_states m))) [q]).

(* some final state is reachable from q (q itself included) *)
Definition can_accept (m : dfa) (q : nat) : res bool :=
  bind (reach_from m q) (fun l => Ok (existsb (is_final m) l)).

(* isempty: _find_state(final_states.__contains__, initial_state, ...) *)
Definition isempty (m : dfa) : res bool :=
  bind (can_accept m (d_init m)) (fun b => Ok (negb b)).

(* ---- minimum_word_length: BFS by layers ---- *)
(* states not seen before, each once (Closure.newof) *)
Definition fresh (visited : list nat) (l : list nat) : list nat := newof nat Nat.eqb visited l.

Fixpoint min_len_go (m : dfa) (fuel : nat) (layer visited : list nat) (d : nat) : res nat :=
  match fuel with
  | 0 => Err Fuel
  | S f =>
    if existsb (is_final m) layer then Ok d
    else match layer with
         | [] => Err Empty
         | _ => let next := fresh visited (flat_map (targets m) layer) in
                min_len_go m f next (visited ++ next) (S d)
         end
  end.

Definition min_len (m : dfa) : res nat :=
  min_len_go m (S (S (length (d_states m)))) [d_init m] [d_init m] 0.

(* ---- maximum_word_length ---- *)
Definition keep_useful (m : dfa) (l : list nat) : res (list nat) :=
  fold_right (fun q acc => bind acc (fun r => bind (can_accept m q) (fun b => Ok (if b then q :: r else r))))
             (Ok []) l.

(* depth of the last non-empty layer of co-accessible states; None when a layer exists at depth
   `fuel` (a walk through more states than there are: a cycle) *)
Fixpoint lp_go (m : dfa) (fuel : nat) (layer : list nat) (d : nat) : res (option nat) :=
  match fuel with
  | 0 => Ok None
  | S f =>
    bind (keep_useful m (set_of (flat_map (targets m) layer))) (fun next =>
      match next with
      | [] => Ok (Some d)
      | _ => lp_go m f next (S d)
      end)
  end.

Definition max_len (m : dfa) : res (option nat) :=
  bind (isempty m) (fun e =>
    if e then Err Empty else lp_go m (length (d_states m)) [d_init m] 0).

(* isfinite: maximum_word_length() is not None; EmptyLanguageException -> True *)
Definition isfinite (m : dfa) : res bool :=
  match max_len m with
  | Ok (Some _) => Ok true
  | Ok None => Ok false
  | Err Empty => Ok true
  | Err e => Err e
  end.

(* ---- cardinality / __len__ ---- *)
Definition cardinality (m : dfa) : res N :=
  match min_len m with
  | Err Empty => Ok 0%N
  | Err e => Err e
  | Ok lo =>
    bind (max_len m) (fun hi =>
      match hi with
      | None => Err Infinite
      | Some h => Ok (Nsum (map (fun j => cnt m j (d_init m)) (seq lo (S h - lo))))
      end)
  end.

(* ---- __iter__ (repaired: nothing on an empty language): the first n words ----
   Level by level from length k; `fuel` levels are available, `stop` is the outcome when they are
   used up (the end of a finite language: nothing more; an infinite one: out of fuel). *)
Fixpoint iter_go (m : dfa) (fuel : nat) (k : nat) (need : nat) (stop : res (list word)) : res (list word) :=
  match need with
  | 0 => Ok []
  | _ =>
    match fuel with
    | 0 => stop
    | S f =>
      let ws := wl m k (d_init m) in
      if Nat.leb need (length ws) then Ok (firstn need ws)
      else bind (iter_go m f (S k) (need - length ws) stop) (fun r => Ok (ws ++ r))
    end
  end.

(* finite language: levels lo..hi; infinite: as many levels as needed (n words appear within
   n*(|Q|+1) levels; running out would be reported as Fuel) *)
Definition iter_upto (m : dfa) (n : nat) : res (list word) :=
  bind (isempty m) (fun e =>
    if e then Ok [] else
    bind (min_len m) (fun lo =>
    bind (max_len m) (fun hi =>
      match hi with
      | Some h => iter_go m (S h - lo) lo n (Ok [])
      | None => iter_go m (n * S (length (d_states m))) lo n (Err Fuel)
      end))).

(* ---- random_word ---- *)
(* the inner for loop over transition.items(): Some (symbol, next_state) at the break *)
Fixpoint pick (m : dfa) (r : nat) (row : list (nat * nat)) (choice : N) : option (nat * nat) :=
  match row with
  | [] => None
  | (a, t) :: rest =>
    let c := cnt m r t in
    if N.ltb choice c then Some (a, t) else pick m r rest (N.sub choice c)
  end.

(* draws: one integer per remaining length, in call order.  A loop that ends without break
   leaves the state and the result unchanged; the final `assert state in final_states`. *)
Fixpoint rw_go (m : dfa) (rem : nat) (q : nat) (draws : list N) : res word :=
  match rem with
  | 0 => if is_final m q then Ok [] else Err (OtherErr 1)
  | S r =>
    match draws with
    | [] => Err (OtherErr 2)
    | c :: ds =>
      match pick m r (row_of m q) c with
      | Some (a, t) => bind (rw_go m r t ds) (fun w => Ok (a :: w))
      | None => rw_go m r q ds
      end
    end
  end.

Definition random_word (m : dfa) (k : nat) (draws : list N) : res word :=
  if N.eqb (cnt m k (d_init m)) 0 then Err ValueErr else rw_go m k (d_init m) draws.

(* the totals the code passes to randint, step by step, for the draws given so far plus the
   total of the next call (the harness reproduces Random(seed).randint(0, total-1) from them) *)
Fixpoint rw_totals (m : dfa) (rem : nat) (q : nat) (draws : list N) : list N :=
  match rem with
  | 0 => []
  | S r =>
    cnt m rem q :: match draws with
                   | [] => []
                   | c :: ds => match pick m r (row_of m q) c with
                                | Some (_, t) => rw_totals m r t ds
                                | None => rw_totals m r q ds
                                end
                   end
  end.
