(* C17: executable model of MNTM.read_input_as_ntm (automata/tm/mntm.py:282-438), the
   single-tape simulation of a multitape machine on one "extended tape"
       c0 .. cp ^ c(p+1) .. _   c0 .. ^ .. _   ...
   (one segment per virtual tape, the head marker right after the scanned cell, a separator
   closing each segment).  The string splicing is mirrored index by index; the L-move branch is
   the one of the repaired code (notes/trial-fixes.diff, hunk for automata/tm/mntm.py): an L move
   from the leftmost cell of a virtual tape inserts blank + head at the segment start.
   Symbols are typed (Sym s | Head | Sep): tape alphabets containing the characters '^' or '_'
   are outside the model (the harness never generates them).  No proofs here. *)
From Coq Require Import List Arith Bool.
From AV Require Import Base.Util Spec.TM Model.TM.
Import ListNotations.

Inductive esym := Sym (s : nat) | Head | Sep.

Definition is_head (x : esym) : bool := match x with Head => true | _ => false end.
Definition is_sep (x : esym) : bool := match x with Sep => true | _ => false end.

(* MalformedExtendedTapeError *)
Definition Malformed : err := OtherErr 1.

(* ---------- the initial extended tape ----------
   (tape.tape[0], head_symbol, *tape.tape[1:], tape_separator_symbol) for tape in tapes *)
Definition ext_of_cells (cells : list nat) : res (list esym) :=
  match cells with
  | [] => Err IndexErr
  | c :: r => Ok (Sym c :: Head :: map Sym r ++ [Sep])
  end.

Fixpoint ext_initial (tapes : list tape) : res (list esym) :=
  match tapes with
  | [] => Ok []
  | t :: r => bind (ext_of_cells (t_cells t)) (fun a => bind (ext_initial r) (fun b => Ok (a ++ b)))
  end.

(* ---------- _read_extended_tape ----------
   prev = tape[i-1] (None at i = 0); heads in reverse; heads_found; separators_found *)
Fixpoint read_heads_go (prev : option esym) (l : list esym) (heads : list esym)
         (found seps : nat) : res (list esym) :=
  match l with
  | [] => if Nat.eqb (length heads) seps then Ok (rev heads) else Err Malformed
  | Head :: r =>
    match prev with
    | None => Err Malformed                         (* head symbol on the leftmost end *)
    | Some p => read_heads_go (Some Head) r (p :: heads) (S found) seps
    end
  | Sep :: r =>
    if Nat.eqb found 0 then Err Malformed
    else if Nat.ltb 1 found then Err Malformed
    else read_heads_go (Some Sep) r heads 0 (S seps)
  | Sym s :: r => read_heads_go (Some (Sym s)) r heads found seps
  end.

Definition read_heads (ext : list esym) : res (list esym) := read_heads_go None ext [] 0 0.

(* the tuple used as a dictionary key: a marker in it never equals a tape symbol *)
Fixpoint heads_key (hs : list esym) : option (list nat) :=
  match hs with
  | [] => Some []
  | Sym s :: r => match heads_key r with Some k => Some (s :: k) | None => None end
  | _ :: _ => None
  end.

(* ---------- string splicing ---------- *)
Definition set_at (i : nat) (x : esym) (l : list esym) : list esym :=
  firstn i l ++ x :: skipn (S i) l.                       (* l[:i] + x + l[i+1:] *)
Definition remove_at (i : nat) (l : list esym) : list esym :=
  firstn i l ++ skipn (S i) l.                            (* l[:i] + l[i+1:] *)
Definition insert_at (i : nat) (xs l : list esym) : list esym :=
  firstn i l ++ xs ++ skipn i l.                          (* l[:i] + xs + l[i:] *)
Definition sep_at (l : list esym) (i : nat) : bool :=
  match nth_error l i with Some Sep => true | _ => false end.

(* the body of `if new_tape[i] == head_symbol:`; returns the tape and i before the loop's `i += 1` *)
Definition splice_head (blank : nat) (tp : list esym) (i : nat) (w : nat) (d : dir)
  : list esym * nat :=
  let t1 := set_at (i - 1) (Sym w) tp in                  (* new_tape[:i-1] + new_head + new_tape[i:] *)
  let t2 := remove_at i t1 in                             (* remove the old head *)
  let i1 := match d with DR => S i | DL => i - 1 | DN => i end in
  if (match d with DL => true | _ => false end) && (Nat.eqb i1 0 || sep_at t2 (i1 - 1)) then
    (* repaired branch: moved left from the leftmost cell of the virtual tape *)
    (insert_at i1 [Sym blank; Head] t2, S i1)
  else if Nat.ltb 0 i1 && sep_at t2 (i1 - 1) then
    (* moved right past the last cell of the virtual tape *)
    let i2 := i1 - 1 in (insert_at i2 [Sym blank; Head] t2, S i2)
  else (insert_at i1 [Head] t2, i1).

(* `while executing_changes:` for one move, from index i; result: tape and the index after the
   separator of the segment.  Fuel bounds the number of loop iterations. *)
Fixpoint scan_move (fuel : nat) (blank : nat) (tp : list esym) (i : nat) (w : nat) (d : dir)
  : res (list esym * nat) :=
  match fuel with
  | 0 => Err Fuel
  | S f =>
    match nth_error tp i with
    | None => Err IndexErr                                 (* new_tape[i] *)
    | Some Head => let (tp', i') := splice_head blank tp i w d in scan_move f blank tp' (S i') w d
    | Some Sep => Ok (tp, S i)
    | Some (Sym _) => scan_move f blank tp (S i) w d
    end
  end.

Definition scan_fuel (tp : list esym) : nat := length tp + 3.

(* `for move in moves:` *)
Fixpoint apply_moves (blank : nat) (tp : list esym) (i : nat) (mv : list mmove)
  : res (list esym * nat) :=
  match mv with
  | [] => Ok (tp, i)
  | (w, d) :: r => bind (scan_move (scan_fuel tp) blank tp i w d)
                        (fun p => apply_moves blank (fst p) (snd p) r)
  end.

(* ---------- the simulation relation ----------
   segment i spells tape i, with the head marker right after the scanned cell *)
Definition enc_tape (t : tape) : list esym :=
  map Sym (firstn (S (t_pos t)) (t_cells t)) ++ Head :: map Sym (skipn (S (t_pos t)) (t_cells t)) ++ [Sep].
Definition encode (ts : list tape) : list esym := flat_map enc_tape ts.
Definition encodes (ext : list esym) (ts : list tape) : Prop :=
  ext = encode ts /\ Forall (fun t => t_pos t < length (t_cells t)) ts.

(* InconsistentTapesException rule of MNTM.validate: at least one tape, every alternative has
   one (write, move) pair per tape *)
Definition valid_tapes (m : mntm) : bool :=
  Nat.leb 1 (mt_n m) &&
  forallb (fun qr : nat * list (list nat * list malt) =>
             forallb (fun e : list nat * list malt =>
                        forallb (fun a : malt => Nat.eqb (length (snd a)) (mt_n m)) (snd e)) (snd qr))
          (mt_trans m).

(* ---------- the BFS ---------- *)
(* queue entries (state, tape, position) *)
Definition ecfg := (nat * list esym * nat)%type.

Definition sim_alt (blank : nat) (ext : list esym) (a : malt) : res ecfg :=
  bind (apply_moves blank ext 0 (snd a)) (fun p => Ok (fst a, fst p, snd p - 1)).

Fixpoint mapR {A B} (f : A -> res B) (l : list A) : res (list B) :=
  match l with
  | [] => Ok []
  | x :: r => bind (f x) (fun y => bind (mapR f r) (fun ys => Ok (y :: ys)))
  end.

(* one iteration on the dequeued entry: inl = the generator returns / raises, inr = appended *)
Definition sim_expand (m : mntm) (c : ecfg) : res ecfg + list ecfg :=
  let '(q, ext, _) := c in
  if memb q (mt_finals m) then inl (Ok c)
  else match read_heads ext with
       | Err e => inl (Err e)
       | Ok hs =>
         match (match heads_key hs with Some k => mt_delta m q k | None => None end) with
         | None => inr []                                  (* KeyError: continue *)
         | Some alts => match mapR (sim_alt (mt_blank m) ext) alts with
                        | Err e => inl (Err e)
                        | Ok new => inr new
                        end
         end
       end.

Fixpoint sim_bfs (m : mntm) (fuel : nat) (queue : list ecfg) : list ecfg * res ecfg :=
  match queue with
  | [] => ([], Err Reject)
  | c :: q =>
    match fuel with
    | 0 => ([], Err Fuel)
    | S f => match sim_expand m c with
             | inl o => ([c], o)
             | inr new => let (ys, o) := sim_bfs m f (q ++ new) in (c :: ys, o)
             end
    end
  end.

Definition sim_stepwise (m : mntm) (fuel : nat) (w : list nat) : list ecfg * res ecfg :=
  match ext_initial (snd (mntm_start m w)) with
  | Err e => ([], Err e)
  | Ok ext => sim_bfs m fuel [(mt_init m, ext, 0)]
  end.

Definition sim_accepts (m : mntm) (fuel : nat) (w : list nat) : res bool :=
  verdict_of (snd (sim_stepwise m fuel w)).
