(* C14 - DFA.successors / successor / predecessors / predecessor.
   SPECIFICATION MODEL (DESIGN 3.1, 7/C14): the sequence of words is uniquely determined by the
   property, so the model is its shortest executable definition - a filter over the enumeration
   of all words up to the length bound in dictionary order - and not the explicit stack machine
   of dfa.py:1466-1551.  Symbols are numbered by rank under the user's key (ascending), so the
   dictionary order is the order on codes; the model sorts the alphabet itself (set_of). *)
From Coq Require Import List Arith Bool.
From AV Require Import Base.Util Spec.Lang Spec.FA Spec.DictOrder Model.Decide Model.Product.
Import ListNotations.

(* start = None: no bound at all (input_str=None: every word of the window is generated) *)
Definition above (start : option word) (strict : bool) (w : word) : bool :=
  match start with
  | None => true
  | Some s => if strict then lex_ltb s w else lex_leb s w
  end.

Definition below (start : option word) (strict : bool) (w : word) : bool :=
  match start with
  | None => true
  | Some s => if strict then lex_ltb w s else lex_leb w s
  end.

Definition in_window (lo hi : nat) (w : word) : bool :=
  (lo <=? length w) && (length w <=? hi).

Definition succ_keep (m : dfa) start strict lo hi (w : word) : bool :=
  dfa_acc m w && in_window lo hi w && above start strict w.
Definition pred_keep (m : dfa) start strict lo hi (w : word) : bool :=
  dfa_acc m w && in_window lo hi w && below start strict w.

Definition succ_list (m : dfa) (start : option word) (strict : bool) (lo hi : nat) : list word :=
  filter (succ_keep m start strict lo hi) (dict_order (set_of (d_syms m)) hi).

Definition pred_list (m : dfa) (start : option word) (strict : bool) (lo hi : nat) : list word :=
  rev (filter (pred_keep m start strict lo hi) (dict_order (set_of (d_syms m)) hi)).

(* max_length=None on a finite language: no accepted word is as long as the number of states *)
Definition default_hi (m : dfa) : nat := length (d_states m).
Definition the_hi (m : dfa) (ohi : option nat) : nat :=
  match ohi with Some h => h | None => default_hi m end.

(* successors(...): with max_length the list is finite whatever the language; without it the
   generator is finite exactly when the language is (an infinite language without max_length
   gives an endless generator: outside the property's quantifier, answered Err Infinite) *)
Definition succ_m (m : dfa) start strict lo (ohi : option nat) : res (list word) :=
  match ohi with
  | Some hi => Ok (succ_list m start strict lo hi)
  | None => bind (isfinite_m m)
                 (fun b => if b then Ok (succ_list m start strict lo (default_hi m)) else Err Infinite)
  end.

(* predecessors(...) = successors(reverse=True): InfiniteLanguageException first *)
Definition pred_m (m : dfa) start strict lo (ohi : option nat) : res (list word) :=
  bind (isfinite_m m)
       (fun b => if b then Ok (pred_list m start strict lo (the_hi m ohi)) else Err Infinite).

(* the single-step variants: first generated word or None *)
Definition successor_m (m : dfa) start strict lo ohi : res (option word) :=
  bind (succ_m m start strict lo ohi) (fun l => Ok (hd_error l)).
Definition predecessor_m (m : dfa) start strict lo ohi : res (option word) :=
  bind (pred_m m start strict lo ohi) (fun l => Ok (hd_error l)).
