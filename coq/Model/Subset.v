(* C07/C09: subset construction (DFA.from_nfa through _expand_dfa with
   NFA._iterate_through_symbol_path_pairs), NFA.from_dfa, NFA equality. *)
From Coq Require Import List Arith Bool.
From AV Require Import Base.Util Base.Closure Spec.Lang Spec.FA Model.Decide Model.Product Model.Build.
Import ListNotations.

(* only symbols with a non-empty target set are yielded *)
Definition det_succ (m : nfa) (S : list nat) : list (nat * list nat) :=
  flat_map (fun c => match nset_step m S c with [] => [] | t => [(c, t)] end) (set_of (n_syms m)).

Definition det_fuel (m : nfa) : nat :=
  if Nat.leb (length (n_states m)) 14 then S (pow2 (length (n_states m))) else big_fuel.

Definition determinize_m (m : nfa) : res dfa :=
  build_dfa (list nat) (eqb_list Nat.eqb) (det_succ m) (nset_final m) (n_syms m) (det_fuel m) (nset_init m).

(* the subset states themselves (retain_names=True, minify=False view), in discovery order *)
Definition determinize_states (m : nfa) : res (list (list nat)) :=
  ores (explore (list nat) (eqb_list Nat.eqb) (det_succ m) (det_fuel m) (nset_init m)).

Definition from_dfa_m (d : dfa) : nfa :=
  mknfa (d_states d) (d_syms d)
        (map (fun r => (fst r, map (fun ct => (Some (fst ct), [snd ct])) (snd r))) (d_trans d))
        (d_init d) (d_finals d).

Definition nsame_syms (A B : nfa) : bool := subsetb (n_syms A) (n_syms B) && subsetb (n_syms B) (n_syms A).

(* NFA.__eq__ (Hopcroft-Karp over subset states): specification model = the verified comparator *)
Definition nfa_eq_m (A B : nfa) : res bool :=
  if nsame_syms A B then bind (nfa_diff A B) (fun r => Ok (isnone r)) else Err Mismatch.
Definition nfa_ne_m (A B : nfa) : res bool := bind (nfa_eq_m A B) (fun b => Ok (negb b)).

(* flags checked on the implementation's eliminate_lambda result *)
Definition has_eps (m : nfa) : bool :=
  existsb (fun r => existsb (fun e => isnone (fst e) && negb (match snd e with [] => true | _ => false end)) (snd r)) (n_trans m).
Definition has_eps_key (m : nfa) : bool :=
  existsb (fun r => existsb (fun e => isnone (fst e)) (snd r)) (n_trans m).
Definition nfa_reach (m : nfa) : res (list nat) :=
  ores (closure Nat.eqb
          (fun q => match assoc q (n_trans m) with Some row => flat_map snd row | None => [] end)
          (S (length (n_states m))) [n_init m]).
Definition all_reachable (m : nfa) : res bool :=
  bind (nfa_reach m) (fun r => Ok (forallb (fun q => memb q r) (n_states m))).
