(* C15 dispatch.
   ops 1-10: [params, impl?]  (impl? = [] or [dfa]) ->
             [model result, judgement] with judgement = [] or
             [valid impl, dfa_diff model impl, is_minimal impl]
     1 from_prefix [syms,p,contains,as_partial]   2 from_suffix [syms,p,contains]
     3 from_substring [syms,p,contains,must_be_suffix]  4 from_subsequence [syms,p,contains]
     5 of_length [syms,lo,hi?,counted?]   6 count_mod [syms,k,rems?,counted?]
     7 nth_from_start [syms,s,n]   8 nth_from_end [syms,s,n]
     9 universal_language [syms]   10 empty_language [syms]
     11 from_substring through the KMP mirror model (Model/KMP.v) [syms,p,contains,must_be_suffix]
     13 from_substrings through the Aho-Corasick mirror model (Model/AhoCorasick.v)
        [syms,patterns in iteration order,contains,must_be_suffix]
   op 14: [[syms, words of the language in any order, as_partial], impl?] -> from_finite_language through the mirror
          model of the Mihov-Schulz construction (Model/FiniteLang.v):
          [model result, judgement, names] where names = result [prefix that names state 0, state 1, ...] (the trap of
          the complete form is the one state after them and has no prefix)
   op 12: [p] -> the KMP failure table of the mirror model, entries shifted by one (-1 -> 0), as a result
   op 20: [dfa] -> [valid, is_minimal]
   op 21: [dfa, k, code, args] -> first word of length <= k over the DFA's alphabet on which the
          DFA and the boolean predicate (code, args) of Spec/Preds.v differ, as [] / [w] *)
From Coq Require Import List Arith NArith Bool.
From AV Require Import Base.Util Base.ITree Spec.Lang Spec.FA Spec.Preds
                       Model.Codec Model.Decide Model.D00 Model.Construct Model.KMP Model.AhoCorasick Model.FiniteLang.
Import ListNotations.

Definition dec_words : itree -> option (list word) := dec_list dec_word.

Definition dec_ctor (op : nat) (t : itree) : option (res dfa) :=
  match op, t with
  | 1, L [ts; tp; tc; ta] =>
    match dec_nats ts, dec_word tp, dec_bool tc, dec_bool ta with
    | Some s, Some p, Some c, Some a => Some (Ok (from_prefix_m s p c a))
    | _, _, _, _ => None
    end
  | 2, L [ts; tp; tc] =>
    match dec_nats ts, dec_word tp, dec_bool tc with
    | Some s, Some p, Some c => Some (Ok (from_suffix_m s p c))
    | _, _, _ => None
    end
  | 3, L [ts; tp; tc; tm] =>
    match dec_nats ts, dec_word tp, dec_bool tc, dec_bool tm with
    | Some s, Some p, Some c, Some m => Some (Ok (from_substring_m s p c m))
    | _, _, _, _ => None
    end
  | 4, L [ts; tp; tc] =>
    match dec_nats ts, dec_word tp, dec_bool tc with
    | Some s, Some p, Some c => Some (Ok (from_subsequence_m s p c))
    | _, _, _ => None
    end
  | 5, L [ts; tlo; thi; tcn] =>
    match dec_nats ts, dec_nat tlo, dec_opt dec_nat thi, dec_opt dec_nats tcn with
    | Some s, Some lo, Some hi, Some cn => Some (Ok (of_length_m s lo hi cn))
    | _, _, _, _ => None
    end
  | 6, L [ts; tk; tr; tcn] =>
    match dec_nats ts, dec_nat tk, dec_opt dec_nats tr, dec_opt dec_nats tcn with
    | Some s, Some k, Some r, Some cn => Some (count_mod_m s k r cn)
    | _, _, _, _ => None
    end
  | 7, L [ts; ty; tn] =>
    match dec_nats ts, dec_nat ty, dec_nat tn with
    | Some s, Some y, Some n => Some (nth_from_start_m s y n)
    | _, _, _ => None
    end
  | 8, L [ts; ty; tn] =>
    match dec_nats ts, dec_nat ty, dec_nat tn with
    | Some s, Some y, Some n => Some (nth_from_end_m s y n)
    | _, _, _ => None
    end
  | 9, L [ts] => match dec_nats ts with Some s => Some (Ok (universal_m s)) | None => None end
  | 10, L [ts] => match dec_nats ts with Some s => Some (Ok (empty_m s)) | None => None end
  | 11, L [ts; tp; tc; tm] =>
    match dec_nats ts, dec_word tp, dec_bool tc, dec_bool tm with
    | Some s, Some p, Some c, Some m => Some (kmp_dfa s p c m)
    | _, _, _, _ => None
    end
  | 13, L [ts; tp; tc; tm] =>
    match dec_nats ts, dec_words tp, dec_bool tc, dec_bool tm with
    | Some s, Some ps, Some c, Some m => Some (ac_dfa s ps c m)
    | _, _, _, _ => None
    end
  | _, _ => None
  end.

Definition dec_pred (code : nat) (t : itree) : option (word -> bool) :=
  match code, t with
  | 1, L [tp; tc] =>
    match dec_word tp, dec_bool tc with Some p, Some c => Some (fun w => flagb c (prefixb p w)) | _, _ => None end
  | 2, L [tp; tc] =>
    match dec_word tp, dec_bool tc with Some p, Some c => Some (fun w => flagb c (suffixb p w)) | _, _ => None end
  | 3, L [tp; tc] =>
    match dec_word tp, dec_bool tc with Some p, Some c => Some (fun w => flagb c (substringb p w)) | _, _ => None end
  | 4, L [tp; tc] =>
    match dec_word tp, dec_bool tc with Some p, Some c => Some (fun w => flagb c (subseqb p w)) | _, _ => None end
  | 5, L [tcs; tlo; thi] =>
    match dec_nats tcs, dec_nat tlo, dec_opt dec_nat thi with
    | Some cs, Some lo, Some hi => Some (rangeb cs lo hi)
    | _, _, _ => None
    end
  | 6, L [tcs; tk; tr] =>
    match dec_nats tcs, dec_nat tk, dec_nats tr with
    | Some cs, Some k, Some r => Some (modb cs k r)
    | _, _, _ => None
    end
  | 7, L [ts; tn] =>
    match dec_nat ts, dec_nat tn with Some s, Some n => Some (nth_startb s n) | _, _ => None end
  | 8, L [ts; tn] =>
    match dec_nat ts, dec_nat tn with Some s, Some n => Some (nth_endb s n) | _, _ => None end
  | 9, L [tl] => match dec_words tl with Some l => Some (memberb l) | None => None end
  | 10, L [tl; tc] =>
    match dec_words tl, dec_bool tc with Some l, Some c => Some (fun w => flagb c (anysubb l w)) | _, _ => None end
  | 11, L [tl; tc] =>
    match dec_words tl, dec_bool tc with Some l, Some c => Some (fun w => flagb c (anysufb l w)) | _, _ => None end
  | 12, L [tb] => match dec_bool tb with Some b => Some (fun _ => b) | None => None end
  | _, _ => None
  end.

Definition judge (model : res dfa) (impl : option dfa) : itree :=
  match model, impl with
  | Ok m, Some i => L [Ib (valid_dfa i); enc_diff (dfa_diff m i); Ib (is_minimal i)]
  | _, _ => L []
  end.

Definition d15 (op : nat) (t : itree) : itree :=
  match op, t with
  | 20, L [td] =>
    match dec_dfa td with
    | Some d => L [Ib (valid_dfa d); Ib (is_minimal d)]
    | None => bad_input
    end
  | 12, L [tp] =>
    match dec_word tp with
    | Some p => enc_res enc_nats (bind (kmp_table p) (fun T => Ok (map cinc T)))
    | None => bad_input
    end
  | 21, L [td; tk; tc; ta] =>
    match dec_dfa td, dec_nat tk, dec_nat tc with
    | Some d, Some k, Some c =>
      match dec_pred c ta with
      | Some pr => enc_opt enc_nats (first_diff d pr k)
      | None => bad_input
      end
    | _, _, _ => bad_input
    end
  | 14, L [L [ts; tl; ta]; ti] =>
    match dec_nats ts, dec_words tl, dec_bool ta, dec_opt dec_dfa ti with
    | Some sy, Some lang, Some ap, Some impl =>
      let model := fl_dfa sy lang ap in
      L [enc_res enc_dfa model; judge model impl; enc_res (enc_list enc_nats) (fl_state_names lang)]
    | _, _, _, _ => bad_input
    end
  | _, L [tp; ti] =>
    match dec_ctor op tp, dec_opt dec_dfa ti with
    | Some model, Some impl => L [enc_res enc_dfa model; judge model impl]
    | _, _ => bad_input
    end
  | _, _ => bad_input
  end.
