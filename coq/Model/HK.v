(* C06 / C09: mirror model of DFA.__eq__ (automata/fa/dfa.py lines 135-184) and NFA.__eq__
   (automata/fa/nfa.py lines 1016-1072): the Hopcroft-Karp "almost linear" equivalence test
   (Almeida, Moreira, Reis, arXiv:0907.5058) with the networkx UnionFind and an explicit stack.

   The two methods are the same code over two deterministic systems: the DFA with the None sink of
   _get_next_current_state, and the NFA's subset states.  The construction below is therefore generic
   (like gdiff in Model/Decide.v) and instantiated twice.

   What is not determined by the Python text and is therefore a parameter (the theorems of
   Proofs/HK.v quantify over ALL values of these parameters):
     - syms : the order in which `for symbol in self.input_symbols` (a frozenset) yields the symbols;
     - tie  : which of two roots of EQUAL weight becomes the root in UnionFind.union
              (`sorted({self[x] for x in objects}, key=weights, reverse=True)`: a stable sort of a
              two-element *set*, so on equal weights the set's iteration order decides).
   Path compression and the shape of the parent forest are not observable: `state_sets[x]` returns the
   root of x's tree and nothing else of the forest can be seen by __eq__.  Two union-find models are
   given and proved interchangeable (Proofs/HK.v, hkf_run_eq): the FOREST model follows networkx
   statement by statement (parent pointers, the walk to the root, compression of the walked path,
   `parents[r] = root` on union) and is the one on the wire; the FLAT model keeps the parent of every
   element equal to the root of its tree (union re-points the members of the losing tree) and is the
   one the correctness proof is about.  The weights are represented in both (they decide which root
   survives a union, and the surviving root is what gets pushed on the stack). *)
From Coq Require Import List Arith Bool.
From AV Require Import Base.Util Spec.Lang Spec.FA Model.Decide Model.Product Model.Subset.
Import ListNotations.

Section HK.
  Variables X Y : Type.
  Variable eqbX : X -> X -> bool.
  Variable eqbY : Y -> Y -> bool.
  Variable stepX : X -> nat -> X.
  Variable stepY : Y -> nat -> Y.
  Variable finX : X -> bool.
  Variable finY : Y -> bool.

  (* DFAStatePairT = (state, operand_index): operand 0 is inl, operand 1 is inr *)
  Definition elem : Type := (X + Y)%type.

  Definition eqbE (p q : elem) : bool :=
    match p, q with
    | inl a, inl b => eqbX a b
    | inr a, inr b => eqbY a b
    | _, _ => false
    end.

  (* is_final_state(state_pair) *)
  Definition efinal (p : elem) : bool := match p with inl x => finX x | inr y => finY y end.
  (* transition(state_pair, symbol): same operand index *)
  Definition estep (p : elem) (a : nat) : elem :=
    match p with inl x => inl (stepX x a) | inr y => inr (stepY y a) end.

  (* ---- networkx.utils.union_find.UnionFind: the data, and the FLAT operations ---- *)
  Fixpoint elookup {B} (k : elem) (l : list (elem * B)) : option B :=
    match l with
    | [] => None
    | (k', v) :: r => if eqbE k k' then Some v else elookup k r
    end.

  (* self.parents, self.weights (same key set; a later entry for a key is shadowed by an earlier one) *)
  Record uf := mkuf { uf_parents : list (elem * elem); uf_weights : list (elem * nat) }.

  (* UnionFind(elements): the discrete partition on the given elements *)
  Definition uf_new (els : list elem) : uf :=
    mkuf (map (fun x => (x, x)) els) (map (fun x => (x, 1)) els).

  (* flat __getitem__: an unknown object becomes a singleton (and is stored); otherwise its parent, which is the root *)
  Definition uf_find (u : uf) (x : elem) : elem * uf :=
    match elookup x (uf_parents u) with
    | None => (x, mkuf ((x, x) :: uf_parents u) ((x, 1) :: uf_weights u))
    | Some r => (r, u)
    end.

  Definition uf_weight (u : uf) (r : elem) : nat :=
    match elookup r (uf_weights u) with Some w => w | None => 0 end.

  Variable tie : elem -> elem -> bool.   (* equal weights: true = the first root survives *)

  (* flat union(a, b): roots of both (unknown objects are added); the heavier root survives, every member
     of the other tree is re-pointed to it and the weights are added; nothing happens when the roots coincide *)
  Definition uf_union (u : uf) (a b : elem) : uf :=
    let (ra, u1) := uf_find u a in
    let (rb, u2) := uf_find u1 b in
    if eqbE ra rb then u2
    else
      let wa := uf_weight u2 ra in
      let wb := uf_weight u2 rb in
      let first := if Nat.ltb wb wa then true else if Nat.ltb wa wb then false else tie ra rb in
      let root := if first then ra else rb in
      let other := if first then rb else ra in
      mkuf (map (fun kv => (fst kv, if eqbE (snd kv) other then root else snd kv)) (uf_parents u2))
           ((root, wa + wb) :: uf_weights u2).

  (* ---- the same structure as networkx keeps it: a parent forest with path compression ---- *)
  (* `while root != object: path.append(object); object = root; root = self.parents[object]`
     bounded by the number of entries (never reached before the root: Proofs/HK.v walk_spec) *)
  Fixpoint f_walk (n : nat) (p : list (elem * elem)) (obj : elem) (path : list elem) : elem * list elem :=
    match n with
    | 0 => (obj, path)
    | S n' =>
      match elookup obj p with
      | None => (obj, path)
      | Some root => if eqbE root obj then (obj, path) else f_walk n' p root (obj :: path)
      end
    end.

  (* __getitem__: unknown object -> new singleton; otherwise walk up, then
     `for ancestor in path: self.parents[ancestor] = root` (a dict update = an entry in front) *)
  Definition fuf_find (u : uf) (x : elem) : elem * uf :=
    match elookup x (uf_parents u) with
    | None => (x, mkuf ((x, x) :: uf_parents u) ((x, 1) :: uf_weights u))
    | Some _ =>
      let (root, path) := f_walk (S (length (uf_parents u))) (uf_parents u) x [] in
      (root, mkuf (map (fun anc => (anc, root)) path ++ uf_parents u) (uf_weights u))
    end.

  (* union: `self.weights[root] += self.weights[r]; self.parents[r] = root` *)
  Definition fuf_union (u : uf) (a b : elem) : uf :=
    let (ra, u1) := fuf_find u a in
    let (rb, u2) := fuf_find u1 b in
    if eqbE ra rb then u2
    else
      let wa := uf_weight u2 ra in
      let wb := uf_weight u2 rb in
      let first := if Nat.ltb wb wa then true else if Nat.ltb wa wb then false else tie ra rb in
      let root := if first then ra else rb in
      let other := if first then rb else ra in
      mkuf ((other, root) :: uf_parents u2) ((root, wa + wb) :: uf_weights u2).

  (* ---- the loop, over either union-find ---- *)
  Section Loop.
    Variable find : uf -> elem -> elem * uf.
    Variable union : uf -> elem -> elem -> uf.
    Variable syms : list nat.              (* iteration order of self.input_symbols *)

    Definition hk_state : Type := (uf * list (elem * elem))%type.   (* state_sets, pair_stack (top first) *)

    (* body of `for symbol in self.input_symbols` *)
    Definition hk_symbol (qa qb : elem) (st : hk_state) (a : nat) : hk_state :=
      let (r1, u1) := find (fst st) (estep qa a) in
      let (r2, u2) := find u1 (estep qb a) in
      if eqbE r1 r2 then (u2, snd st)
      else (union u2 r1 r2, (r1, r2) :: snd st).

    (* `while pair_stack:` one unit of fuel per popped pair *)
    Fixpoint hk_loop (fuel : nat) (st : hk_state) : res bool :=
      match snd st with
      | [] => Ok true
      | (qa, qb) :: rest =>
        match fuel with
        | 0 => Err Fuel
        | S f =>
          if xorb (efinal qa) (efinal qb) then Ok false
          else hk_loop f (fold_left (hk_symbol qa qb) syms (fst st, rest))
        end
      end.

    Definition hk_run (fuel : nat) (x0 : X) (y0 : Y) : res bool :=
      let a : elem := inl x0 in
      let b : elem := inr y0 in
      hk_loop fuel (union (uf_new [a; b]) a b, [(a, b)]).

    (* the same loop, additionally recording the arguments of every call of `state_sets.union`
       (newest first; hk_run_log returns them in call order).  A harness-side spy on
       networkx's UnionFind sees exactly this sequence. *)
    Definition hk_symbol_log (qa qb : elem) (sl : hk_state * list (elem * elem)) (a : nat)
      : hk_state * list (elem * elem) :=
      let (r1, u1) := find (fst (fst sl)) (estep qa a) in
      let (r2, u2) := find u1 (estep qb a) in
      if eqbE r1 r2 then ((u2, snd (fst sl)), snd sl)
      else ((union u2 r1 r2, (r1, r2) :: snd (fst sl)), (r1, r2) :: snd sl).

    Fixpoint hk_loop_log (fuel : nat) (sl : hk_state * list (elem * elem)) : res bool * list (elem * elem) :=
      match snd (fst sl) with
      | [] => (Ok true, snd sl)
      | (qa, qb) :: rest =>
        match fuel with
        | 0 => (Err Fuel, snd sl)
        | S f =>
          if xorb (efinal qa) (efinal qb) then (Ok false, snd sl)
          else hk_loop_log f (fold_left (hk_symbol_log qa qb) syms ((fst (fst sl), rest), snd sl))
        end
      end.

    Definition hk_run_log (fuel : nat) (x0 : X) (y0 : Y) : res bool * list (elem * elem) :=
      let a : elem := inl x0 in
      let b : elem := inr y0 in
      let (r, log) := hk_loop_log fuel ((union (uf_new [a; b]) a b, [(a, b)]), [(a, b)]) in
      (r, rev log).
  End Loop.

  Definition hk_run_flat := hk_run uf_find uf_union.      (* proof model *)
  Definition hk_run_forest := hk_run fuf_find fuf_union.  (* networkx as coded *)
  Definition hk_run_forest_log := hk_run_log fuf_find fuf_union.
End HK.

(* a tie-break given as the finite list of ordered root pairs on which the first root survives *)
Definition tie_of_table {X Y} (eqbX : X -> X -> bool) (eqbY : Y -> Y -> bool) (tbl : list (elem X Y * elem X Y))
  : elem X Y -> elem X Y -> bool :=
  fun x y => existsb (fun p => eqbE X Y eqbX eqbY x (fst p) && eqbE X Y eqbX eqbY y (snd p)) tbl.

(* ---- DFA.__eq__ ----
   states are `option nat`: None is what _get_next_current_state returns for a missing transition (and
   for None itself); `None in final_states` is False.  ostep is the value of the lookup
   `self.transitions[state]` for states that have a row (every state of a validated DFA;
   Proofs/FARun.v dfa_step_spec).  Different alphabets: NotImplemented, as in eq_m. *)
Definition hk_fuel (A B : dfa) : nat := S (S (length (d_states A)) + S (length (d_states B))).

Definition hk_eq_gen (tie : option nat + option nat -> option nat + option nat -> bool) (syms : list nat)
           (A B : dfa) : res bool :=
  guard_syms A B
    (hk_run_forest (option nat) (option nat) (eqb_opt Nat.eqb) (eqb_opt Nat.eqb)
            (ostep A) (ostep B) (ofinal A) (ofinal B) tie syms
            (hk_fuel A B) (Some (d_init A)) (Some (d_init B))).

(* with the sequence of union calls *)
Definition hk_eq_log (tie : option nat + option nat -> option nat + option nat -> bool) (syms : list nat)
           (A B : dfa) : res bool * list ((option nat + option nat) * (option nat + option nat)) :=
  if same_syms A B
  then hk_run_forest_log (option nat) (option nat) (eqb_opt Nat.eqb) (eqb_opt Nat.eqb)
         (ostep A) (ostep B) (ofinal A) (ofinal B) tie syms
         (hk_fuel A B) (Some (d_init A)) (Some (d_init B))
  else (Err Mismatch, []).

(* the instance on the wire: symbols in the order of the record, first root survives a tie *)
Definition hk_eq (A B : dfa) : res bool := hk_eq_gen (fun _ _ => true) (d_syms A) A B.

(* ---- NFA.__eq__ ----
   subset states (frozensets) are sorted duplicate-free lists; the initial pair holds the lambda
   closures of the initial states; transition = _get_next_current_states = nset_step;
   is_final_state = any(not final_states.isdisjoint(lambda_closures[state]) for state in states). *)
Definition nset_final_cl (m : nfa) (S : list nat) : bool :=
  existsb (fun q => existsb (fun p => memb p (n_finals m)) (eclose m q)) S.

(* unary fuel in the extracted driver: exact bound for small operands, a fixed budget beyond *)
Definition nfa_hk_fuel (A B : nfa) : nat :=
  if Nat.leb (length (n_states A) + length (n_states B)) 14
  then S (pow2 (length (n_states A)) + pow2 (length (n_states B))) else big_fuel.

Definition nfa_hk_eq_gen (tie : list nat + list nat -> list nat + list nat -> bool) (syms : list nat)
           (A B : nfa) : res bool :=
  if nsame_syms A B
  then hk_run_forest (list nat) (list nat) (eqb_list Nat.eqb) (eqb_list Nat.eqb)
              (nset_step A) (nset_step B) (nset_final_cl A) (nset_final_cl B) tie syms
              (nfa_hk_fuel A B) (nset_init A) (nset_init B)
  else Err Mismatch.

Definition nfa_hk_eq_log (tie : list nat + list nat -> list nat + list nat -> bool) (syms : list nat)
           (A B : nfa) : res bool * list ((list nat + list nat) * (list nat + list nat)) :=
  if nsame_syms A B
  then hk_run_forest_log (list nat) (list nat) (eqb_list Nat.eqb) (eqb_list Nat.eqb)
         (nset_step A) (nset_step B) (nset_final_cl A) (nset_final_cl B) tie syms
         (nfa_hk_fuel A B) (nset_init A) (nset_init B)
  else (Err Mismatch, []).

Definition nfa_hk_eq (A B : nfa) : res bool := nfa_hk_eq_gen (fun _ _ => true) (n_syms A) A B.
