(* C04 dispatch *)
From Coq Require Import List Arith NArith Bool.
From AV Require Import Base.Util Base.ITree Spec.Lang Spec.FA Model.Codec Model.Decide Model.Product
     Model.Build Model.DFAOps Model.Minimize.
Import ListNotations.

Definition dec_bop (t : itree) : option bop :=
  match dec_nat t with
  | Some 0 => Some Union | Some 1 => Some Inter | Some 2 => Some Diff | Some 3 => Some SymDiff
  | _ => None
  end.

(* expression trees: [0, dfa] | [1, op, e1, e2] | [2, e] *)
Fixpoint dec_dexpr (fuel : nat) (t : itree) : option dexpr :=
  match fuel with
  | 0 => None
  | S f =>
    match t with
    | L [I 0%N; tm] => option_map DLeaf (dec_dfa tm)
    | L [I 1%N; to; ta; tb] =>
      match dec_bop to, dec_dexpr f ta, dec_dexpr f tb with
      | Some o, Some a, Some b => Some (DBin o a b)
      | _, _, _ => None
      end
    | L [I 2%N; ta] => option_map DCompl (dec_dexpr f ta)
    | _ => None
    end
  end.

(* compare an implementation result with the model's:
   [valid_impl, size_impl, size_model, partial_model, diff, valid_model, [size, partial flag] of the minimal PARTIAL DFA of the model result] *)
Definition cmp_result (impl : dfa) (r : res dfa) : itree :=
  match r with
  | Ok m => L [I 1%N; L [Ib (valid_dfa impl); In_ (size impl); In_ (size m); Ib (d_partial m);
                         enc_res (enc_opt enc_nats) (dfa_diff impl m); Ib (valid_dfa m);
                         enc_res (fun r => L [In_ (size r); Ib (d_partial r)]) (to_partial_min m)]]
  | Err e => L [I 0%N; In_ (err_code e)]
  end.

Definition d04 (op : nat) (t : itree) : itree :=
  match op, t with
  | 1, L [te; ti] =>            (* expression tree, implementation's result *)
    match dec_dexpr 12 te, dec_dfa ti with
    | Some e, Some impl => cmp_result impl (deval e)
    | _, _ => bad_input
    end
  | 2, L [tm; ti] =>            (* to_complete *)
    match dec_dfa tm, dec_dfa ti with
    | Some m, Some impl => cmp_result impl (Ok (to_complete_m m))
    | _, _ => bad_input
    end
  | 3, L [tm; ti] =>            (* to_partial(minify=False) *)
    match dec_dfa tm, dec_dfa ti with
    | Some m, Some impl => cmp_result impl (to_partial_m m)
    | _, _ => bad_input
    end
  | 4, te =>                    (* model result only: error kind (e.g. mismatch) *)
    match dec_dexpr 12 te with
    | Some e => enc_res (fun m => Ib (valid_dfa m)) (deval e)
    | None => bad_input
    end
  | _, _ => bad_input
  end.
