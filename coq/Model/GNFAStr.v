(* C12 - the STRING level of automata/fa/gnfa.py (mirror model).
   Model/GNFA.v follows from_dfa / from_nfa / to_regex on expression ASTs; this file follows the
   same functions on the strings they really build.  A label is `option str`:
     None     Python's None (no edge)          Some []   the empty string ""
   and a string is a list of character codes, the codes of Model/RegexLex.v (so that the result
   can be handed to the model of the library's lexer/parser as it is):
     2 '('   3 ')'   4 '|'   7 '*'   9 '?'      an input symbol = the code of its character.
   Followed decision by decision (line numbers of automata/fa/gnfa.py):
     _isbracket_req            l.314-325   depth scan for a '|' outside parentheses
     from_dfa label merging    l.127-139   first symbol as it is, later ones joined by '|'
     from_nfa label merging    l.181-210   "" then a -> a? ; r then "" -> r? / (r)? ; else r|a
     fresh initial/final state l.141-153 / l.212-224
     _find_min_connected_node  l.327-345   in+out degree over the labels that are not None,
                                           first minimum in the iteration order of the dict
     to_regex                  l.347-419   the loop, the r1/r2/r3/r4 rules, the branch for an
                                           empty r1r2r3, the (r1r2r3)? rule
   Iteration orders of Python sets are not observable: the order in which the candidates of
   _find_min_connected_node are visited is an explicit argument (one list per loop iteration, the
   "schedule"); the order of product(...) in the loop body does not matter because every pair
   (q_i, q_j) only writes its own entry and only reads entries that no pair writes, except its own.
   As in Model/GNFA.v the nested dict is a table keyed by (from, to); a missing key is None.
   The second half of the file is the annotated expression tree `sx` (with explicit nodes for
   "?" and for a pair of parentheses) whose plain printing `show` is the string: the functions
   x... repeat the case splits of the string functions on trees.  No proofs in this file. *)
From Coq Require Import List Arith Bool ZArith.
From AV Require Import Base.Util Spec.Lang Spec.FA Model.GNFA.
From AV Require Spec.Regex.
Import ListNotations.

Definition str := list nat.
Definition c_lp := 2.
Definition c_rp := 3.
Definition c_bar := 4.
Definition c_star := 7.
Definition c_opt := 9.

Definition is_nil {A} (l : list A) : bool := match l with [] => true | _ => false end.
Definition is_some {A} (o : option A) : bool := match o with Some _ => true | None => false end.

(* ---- _isbracket_req (l.314-325); the counter is a Python int ---- *)
Fixpoint brk_scan (d : Z) (s : str) : bool :=
  match s with
  | [] => false
  | c :: r =>
    let d' := if Nat.eqb c c_lp then (d + 1)%Z else if Nat.eqb c c_rp then (d - 1)%Z else d in
    if Z.eqb d' 0 && Nat.eqb c c_bar then true else brk_scan d' r
  end.
Definition isbracket_req (s : str) : bool := brk_scan 0%Z s.

Definition paren (s : str) : str := [c_lp] ++ s ++ [c_rp].
Definition brk_wrap (s : str) : str := if isbracket_req s then paren s else s.

(* ---- the GNFA with string labels ---- *)
Record sg := mksg {
  s_states : list nat; s_init : nat; s_final : nat;
  s_tab : list ((nat * nat) * str) }.

Fixpoint sassoc2 (p q : nat) (l : list ((nat * nat) * str)) : option str :=
  match l with
  | [] => None
  | ((p', q'), r) :: t => if Nat.eqb p p' && Nat.eqb q q' then Some r else sassoc2 p q t
  end.

Definition slabel (g : sg) (p q : nat) : option str :=
  if memb p (s_states g) && memb q (s_states g) then sassoc2 p q (s_tab g) else None.

Definition stabulate (sts : list nat) (f : nat -> nat -> option str) : list ((nat * nat) * str) :=
  flat_map (fun p => flat_map (fun q => match f p q with Some r => [((p, q), r)] | None => [] end) sts) sts.

(* ---- to_regex, the body of the loop for one pair (q_i, q_j) (l.369-413) ---- *)
Definition srip_lab (lab : nat -> nat -> option str) (q i j : nat) : option str :=
  match lab i q, lab q j with
  | Some r1, Some r3 =>
    let r1' := brk_wrap r1 in                                     (* l.378 *)
    let r2' := match lab q q with                                 (* l.381-386 *)
               | None => []
               | Some r2 => if Nat.eqb (length r2) 1 then r2 ++ [c_star] else paren r2 ++ [c_star]
               end in
    let r3' := brk_wrap r3 in                                     (* l.388 *)
    let r4' := match lab i j with                                 (* l.391-398 *)
               | None => []
               | Some r4 => if isbracket_req r4 then [c_bar] ++ paren r4
                            else if is_nil r4 then [c_opt]
                            else [c_bar] ++ r4
               end in
    let n := length r1' + length r2' + length r3' in
    Some (if Nat.eqb n 0 then                                     (* l.400-409: empty r1r2r3 *)
            match lab i j with
            | None => []
            | Some o => if is_nil o then []
                        else if Nat.eqb (length o) 1 then o ++ [c_opt]
                        else paren o ++ [c_opt]
            end
          else if eqb_list Nat.eqb r4' [c_opt] && Nat.ltb 1 n     (* l.410 *)
          then paren (r1' ++ r2' ++ r3') ++ r4'
          else r1' ++ r2' ++ r3' ++ r4')                           (* l.413 *)
  | _, _ => lab i j                                                (* l.374 *)
  end.

Definition srip (g : sg) (q : nat) : sg :=
  let sts := remove_nat q (s_states g) in
  mksg sts (s_init g) (s_final g) (stabulate sts (srip_lab (slabel g) q)).

Fixpoint selim_g (g : sg) (order : list nat) : sg :=
  match order with
  | [] => g
  | q :: r => selim_g (srip g q) r
  end.

(* the value returned by to_regex after ripping along [order] (None = Python's None) *)
Definition selim (g : sg) (order : list nat) : option str :=
  let g' := selim_g g order in slabel g' (s_init g') (s_final g').

(* ---- _find_min_connected_node (l.327-345) ---- *)
Definition list_sum (l : list nat) : nat := fold_right Nat.add 0 l.

(* for state in states - {final}: for to_state, label in transitions[state].items():
     if label is not None: state (unless initial) and to_state (unless final) count one each *)
Definition degree (g : sg) (s : nat) : nat :=
  list_sum (flat_map (fun p =>
    map (fun t =>
      if is_some (slabel g p t)
      then (if Nat.eqb p s && negb (Nat.eqb p (s_init g)) then 1 else 0) +
           (if Nat.eqb t s && negb (Nat.eqb t (s_final g)) then 1 else 0)
      else 0) (s_states g))
    (remove_nat (s_final g) (s_states g))).

(* min(dict, key=...): the first key of minimal value in iteration order *)
Fixpoint argmin_first (deg : nat -> nat) (cands : list nat) : option nat :=
  match cands with
  | [] => None
  | c :: r => match argmin_first deg r with
              | Some m => if Nat.ltb (deg m) (deg c) then Some m else Some c
              | None => Some c
              end
  end.

Definition inner_states (g : sg) : list nat :=
  remove_nat (s_final g) (remove_nat (s_init g) (s_states g)).

(* the iteration order of state_degree: the inner states in the order the schedule lists them
   (states the schedule forgot come last, foreign entries are ignored) *)
Definition cand_order (inner hint : list nat) : list nat :=
  filter (fun x => memb x inner) hint ++ filter (fun x => negb (memb x hint)) inner.

(* the while loop (l.361-417); returns the final table and the states ripped, in order.
   min() of an empty dict is a ValueError (more than two states but no inner one: only when the
   state list is not duplicate-free or initial = final, which GNFA.validate excludes) *)
Fixpoint sloop (fuel : nat) (g : sg) (sched : list (list nat)) (acc : list nat) : res (sg * list nat) :=
  if Nat.ltb 2 (length (s_states g)) then
    match fuel with
    | 0 => Err Fuel
    | S f =>
      match argmin_first (degree g) (cand_order (inner_states g) (hd [] sched)) with
      | Some q => sloop f (srip g q) (tl sched) (q :: acc)
      | None => Err ValueErr
      end
    end
  else Ok (g, rev acc).

Definition sto_regex (g : sg) (sched : list (list nat)) : res (option str * list nat) :=
  bind (sloop (length (s_states g)) g sched [])
       (fun r => Ok (slabel (fst r) (s_init (fst r)) (s_final (fst r)), snd r)).

(* ---- from_dfa / from_nfa ---- *)
(* l.141-153 / l.212-224: fresh initial and final state, "" to the old initial state and from the
   old final states, None everywhere else, no entry into the new initial state *)
Definition sfa_gnfa (sts : list nat) (q0 : nat) (finals : list nat) (lab : nat -> nat -> option str) : sg :=
  let i := fresh sts in
  let f := S i in
  let all := i :: f :: sts in
  mksg all i f
    (stabulate all (fun p q =>
       if Nat.eqb p i then (if Nat.eqb q q0 then Some [] else None)
       else if Nat.eqb p f then None
       else if Nat.eqb q i then None
       else if Nat.eqb q f then (if memb p finals then Some [] else None)
       else lab p q)).

(* the symbols of a row that lead to q, in the order of the row (the entry gnfa_transitions[q]
   only depends on these; entries of different targets do not interact) *)
Definition dfa_syms_to (row : list (nat * nat)) (q : nat) : list nat :=
  flat_map (fun e => if eqb_opt Nat.eqb (assoc (fst e) row) (Some q) then [fst e] else []) row.

(* l.130-136 *)
Definition sdfa_step (acc : option str) (a : nat) : option str :=
  match acc with
  | Some l => Some (l ++ [c_bar] ++ [a])
  | None => Some [a]
  end.

Definition sdfa_lab (d : dfa) (p q : nat) : option str :=
  match d_row d p with
  | Some row => fold_left sdfa_step (dfa_syms_to row q) None
  | None => None
  end.

Definition sgnfa_of_dfa (d : dfa) : sg := sfa_gnfa (d_states d) (d_init d) (d_finals d) (sdfa_lab d).

Definition nfa_syms_to (n : nfa) (p : nat) (row : list (option nat * list nat)) (q : nat) : list (option nat) :=
  flat_map (fun e => if memb q (n_targets n p (fst e)) then [fst e] else []) row.

Definition sym_str (o : option nat) : str := match o with None => [] | Some a => [a] end.

(* l.186-205 *)
Definition snfa_step (acc : option str) (o : option nat) : option str :=
  match acc with
  | None => Some (sym_str o)                                               (* l.205 *)
  | Some l =>
    if is_nil l && is_some o then Some (sym_str o ++ [c_opt])              (* l.187-188 *)
    else if negb (is_nil l) && negb (is_some o) then                       (* l.189-199 *)
      (if isbracket_req l then Some (paren l ++ [c_opt]) else Some (l ++ [c_opt]))
    else Some (l ++ [c_bar] ++ sym_str o)                                  (* l.200-203 *)
  end.

Definition snfa_lab (n : nfa) (p q : nat) : option str :=
  match assoc p (n_trans n) with
  | Some row => fold_left snfa_step (nfa_syms_to n p row q) None
  | None => None
  end.

Definition sgnfa_of_nfa (n : nfa) : sg := sfa_gnfa (n_states n) (n_init n) (n_finals n) (snfa_lab n).

Definition dfa_to_regex (d : dfa) (sched : list (list nat)) : res (option str * list nat) :=
  sto_regex (sgnfa_of_dfa d) sched.
Definition nfa_to_regex (n : nfa) (sched : list (list nat)) : res (option str * list nat) :=
  sto_regex (sgnfa_of_nfa n) sched.

(* ================================================================================= *)
(* The annotated expression tree: every string above is the plain printing of one.   *)
(* ================================================================================= *)
Inductive sx :=
| XEps                   (* the empty string, printed as nothing *)
| XSym (a : nat)
| XAlt (r s : sx)        (* r|s *)
| XCat (r s : sx)        (* rs *)
| XStar (r : sx)         (* r* *)
| XOpt (r : sx)          (* r? *)
| XParen (r : sx).       (* (r) *)

Fixpoint show (r : sx) : str :=
  match r with
  | XEps => []
  | XSym a => [a]
  | XAlt r s => show r ++ [c_bar] ++ show s
  | XCat r s => show r ++ show s
  | XStar r => show r ++ [c_star]
  | XOpt r => show r ++ [c_opt]
  | XParen r => paren (show r)
  end.

Fixpoint xden (r : sx) : lang :=
  match r with
  | XEps => l_eps
  | XSym a => fun w => w = [a]
  | XAlt r s => l_union (xden r) (xden s)
  | XCat r s => l_cat (xden r) (xden s)
  | XStar r => l_star (xden r)
  | XOpt r => l_opt (xden r)
  | XParen r => xden r
  end.

(* the AST the library's parser builds from the printing (Spec/Regex.v) *)
Fixpoint cv (r : sx) : Regex.re :=
  match r with
  | XEps => Regex.REps
  | XSym a => Regex.RSym a
  | XAlt r s => Regex.RUnion (cv r) (cv s)
  | XCat r s => Regex.RCat (cv r) (cv s)
  | XStar r => Regex.RStar (cv r)
  | XOpt r => Regex.ROpt (cv r)
  | XParen r => cv r
  end.

(* concatenation nodes are kept left-nested (the parser's associativity), and the empty
   string is not a factor *)
Fixpoint cat_app (a b : sx) : sx :=
  match b with
  | XCat b1 b2 => XCat (cat_app a b1) b2
  | _ => XCat a b
  end.
Definition is_xeps (r : sx) : bool := match r with XEps => true | _ => false end.
Definition xcat (a b : sx) : sx := if is_xeps a then b else if is_xeps b then a else cat_app a b.

Definition xbrk_wrap (r : sx) : sx := if isbracket_req (show r) then XParen r else r.

(* srip_lab on trees, same case split *)
Definition xrip_lab (lab : nat -> nat -> option sx) (q i j : nat) : option sx :=
  match lab i q, lab q j with
  | Some r1, Some r3 =>
    let r1' := xbrk_wrap r1 in
    let r2' := match lab q q with
               | None => XEps
               | Some r2 => if Nat.eqb (length (show r2)) 1 then XStar r2 else XStar (XParen r2)
               end in
    let r3' := xbrk_wrap r3 in
    let mid := xcat (xcat r1' r2') r3' in
    let n := length (show r1') + length (show r2') + length (show r3') in
    Some (if Nat.eqb n 0 then
            match lab i j with
            | None => XEps
            | Some o => if is_nil (show o) then XEps
                        else if Nat.eqb (length (show o)) 1 then XOpt o
                        else XOpt (XParen o)
            end
          else
            match lab i j with
            | None => mid
            | Some r4 => if isbracket_req (show r4) then XAlt mid (XParen r4)
                         else if is_nil (show r4) then (if Nat.ltb 1 n then XOpt (XParen mid) else XOpt mid)
                         else XAlt mid r4
            end)
  | _, _ => lab i j
  end.

Definition xrip_fn (lab : nat -> nat -> option sx) (q i j : nat) : option sx :=
  if Nat.eqb i q || Nat.eqb j q then None else xrip_lab lab q i j.

Definition xdfa_step (acc : option sx) (a : nat) : option sx :=
  match acc with
  | Some l => Some (XAlt l (XSym a))
  | None => Some (XSym a)
  end.

Definition osym_sx (o : option nat) : sx := match o with None => XEps | Some a => XSym a end.

Definition xnfa_step (acc : option sx) (o : option nat) : option sx :=
  match acc with
  | None => Some (osym_sx o)
  | Some l =>
    if is_nil (show l) && is_some o then Some (XOpt (osym_sx o))
    else if negb (is_nil (show l)) && negb (is_some o) then
      (if isbracket_req (show l) then Some (XOpt (XParen l)) else Some (XOpt l))
    else Some (XAlt l (osym_sx o))
  end.

(* an input symbol must be an ordinary character of the regex syntax: not one of the reserved
   characters (codes 0-12) and not a whitespace character (14, 15) *)
Definition sym_ok (a : nat) : bool := Nat.leb 13 a && negb (Nat.eqb a 14) && negb (Nat.eqb a 15).

(* properly parenthesised trees over the symbols accepted by [ok]: l = 1 anything, l = 2 no '|'
   outside parentheses, l = 3 neither '|' nor a concatenation outside parentheses; the empty
   string only alone or as "()" *)
Fixpoint wfl (ok : nat -> bool) (l : nat) (r : sx) : bool :=
  match r with
  | XEps => false
  | XSym a => ok a
  | XAlt a b => Nat.leb l 1 && wfl ok 1 a && wfl ok 2 b
  | XCat a b => Nat.leb l 2 && wfl ok 2 a && wfl ok 3 b
  | XStar a => wfl ok 3 a
  | XOpt a => wfl ok 3 a
  | XParen a => match a with XEps => true | _ => wfl ok 1 a end
  end.

Definition wf_lab (ok : nat -> bool) (r : sx) : bool := is_xeps r || wfl ok 1 r.

(* the symbols a source automaton may use: ordinary characters, listed in its alphabet *)
Definition sym_in (sigma : list nat) (a : nat) : bool := sym_ok a && memb a sigma.

(* Python dicts cannot have two equal keys: the rows of an NFA list every symbol once *)
Fixpoint onodupb (l : list (option nat)) : bool :=
  match l with
  | [] => true
  | x :: r => negb (existsb (eqb_opt Nat.eqb x) r) && onodupb r
  end.
Definition nfa_keys_nodup (n : nfa) : bool :=
  forallb (fun r => onodupb (map fst (snd r))) (n_trans n).
