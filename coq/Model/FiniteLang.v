(* C15: mirror model of DFA.from_finite_language (automata/fa/dfa.py, lines 2342-2468), the
   incremental construction of the minimal DFA of a finite language (Mihov and Schulz,
   Finite-State Techniques, chapter 10), decision by decision.

   Python objects -> model
   - a state is named by a prefix: a `word`.  The renaming to numbers happens only at the end
     (`fl_number`): state i = the i-th key of `transitions` in insertion order; the root "" was
     inserted first and is never removed, so it is state 0.  The trap state of `_to_complete`
     (the integer 0 in Python, which cannot clash with the string names) is a fresh number.
   - `transitions : Dict[str, Dict[str, str]]` = insertion-ordered association list prefix -> row,
     a row = insertion-ordered association list symbol -> prefix.  `d[k] = v` is `wset` (replace in
     place or append), `d.setdefault(k, v)` is `wsetdefault`, `d.pop(k)` is `wdel`.
   - `back_map : Dict[str, Set[str]]` = association list prefix -> list of prefixes (a set as a
     duplicate-free list in insertion order; `for parent_state in back_map[prefix]` runs in list
     order - Proofs/FiniteLang.v shows that this set is the singleton {prefix[:-1]} whenever it is
     iterated, so no iteration order is observable).
   - `final_states : Set[str]` = duplicate-free list (`add` = `wadd`, `discard` = `wdiscard`).
   - `signatures_dict : Dict[Tuple[bool, FrozenSet[Tuple[str, str]]], str]` = association list;
     the frozenset of the row's items is the row sorted by symbol (`sort_row`; the symbols of a
     dict are distinct, so this is a canonical form of the set of pairs).
   - `sorted(language)`: Python compares strings lexicographically by code point; the harness
     numbers the symbols by code point, so this is `lex_leb` of Spec/DictOrder.v.  The language
     (a Python set) is given as a LIST in any order; the theorems quantify over all duplicate-free
     lists.
   - lookups that would raise KeyError are `Err KeyErr`; the constructor's `validate()` is
     `dfa_validate` of Model/Validate.v on the numbered record (a name that is not a key of
     `transitions` gets a number that is not a state, so validate() reports it as the library
     would). *)
From Coq Require Import List Arith Bool.
From AV Require Import Base.Util Spec.Lang Spec.FA Spec.DictOrder Model.DFAOps Model.Construct Model.Validate.
Import ListNotations.

Notation wrow := (list (nat * word)). (* Dict[str, str]: symbol -> state *)
Definition sigT := (bool * wrow)%type.                 (* SignatureT, line 2369 *)

(* ---- dictionaries and sets keyed by words ---- *)
Fixpoint wassoc {B} (k : word) (l : list (word * B)) : option B :=
  match l with
  | [] => None
  | (k', v) :: r => if word_eqb k k' then Some v else wassoc k r
  end.

Fixpoint wset {B} (k : word) (v : B) (l : list (word * B)) : list (word * B) :=      (* d[k] = v *)
  match l with
  | [] => [(k, v)]
  | (k', v') :: r => if word_eqb k k' then (k', v) :: r else (k', v') :: wset k v r
  end.

Definition wsetdefault {B} (k : word) (v : B) (l : list (word * B)) : list (word * B) :=
  match wassoc k l with Some _ => l | None => l ++ [(k, v)] end.

Definition wdel {B} (k : word) (l : list (word * B)) : list (word * B) :=            (* d.pop(k) *)
  filter (fun e => negb (word_eqb k (fst e))) l.

Definition wmem (k : word) (l : list word) : bool := existsb (word_eqb k) l.
Definition wadd (k : word) (l : list word) : list word := if wmem k l then l else l ++ [k].
Definition wdiscard (k : word) (l : list word) : list word := filter (fun x => negb (word_eqb k x)) l.

Definition row_setdefault (a : nat) (t : word) (row : wrow) : wrow :=
  match assoc a row with Some _ => row | None => row ++ [(a, t)] end.

(* frozenset(row.items()) in canonical form: sorted by symbol *)
Fixpoint row_insert (e : nat * word) (l : wrow) : wrow :=
  match l with
  | [] => [e]
  | e' :: r => if Nat.leb (fst e) (fst e') then e :: l else e' :: row_insert e r
  end.
Definition sort_row (l : wrow) : wrow := fold_right row_insert [] l.

Definition row_eqb : wrow -> wrow -> bool := eqb_list (eqb_pair Nat.eqb word_eqb).
Definition sig_eqb (x y : sigT) : bool := Bool.eqb (fst x) (fst y) && row_eqb (snd x) (snd y).

Fixpoint sassoc (k : sigT) (l : list (sigT * word)) : option word :=                 (* signatures_dict.get *)
  match l with
  | [] => None
  | (k', v) :: r => if sig_eqb k k' then Some v else sassoc k r
  end.

(* ---- the four tables (lines 2374-2377) ---- *)
Record flst := mkfl {
  fl_trans : list (word * wrow);
  fl_back : list (word * list word);
  fl_fin : list word;
  fl_sigs : list (sigT * word) }.

Definition fl_init : flst := mkfl [] [([], [])] [] [].

(* lines 2379-2381 *)
Definition compute_signature (s : flst) (q : word) : res sigT :=
  match wassoc q (fl_trans s) with
  | Some row => Ok (wmem q (fl_fin s), sort_row row)
  | None => Err KeyErr
  end.

(* lines 2383-2389 *)
Fixpoint lcp_len (u v : word) : nat :=
  match u, v with
  | a :: u', b :: v' => if Nat.eqb a b then S (lcp_len u' v') else 0
  | _, _ => 0
  end.

(* lines 2391-2406: add_to_trie.  `prefix` is the part of the word already walked *)
Fixpoint add_loop (s : flst) (prefix rest : word) : flst :=
  match rest with
  | [] =>
    (* transitions[prefix] = {} ; final_states.add(prefix) *)
    mkfl (wset prefix [] (fl_trans s)) (fl_back s) (wadd prefix (fl_fin s)) (fl_sigs s)
  | a :: rest' =>
    let np := prefix ++ [a] in
    let tr1 := wsetdefault prefix [] (fl_trans s) in                       (* transitions.setdefault(prefix, {}) *)
    let row := match wassoc prefix tr1 with Some r => r | None => [] end in
    let tr2 := wset prefix (row_setdefault a np row) tr1 in                (* prefix_dict.setdefault(symbol, next_prefix) *)
    let bk1 := wsetdefault np [] (fl_back s) in                            (* back_map.setdefault(next_prefix, set()) *)
    let par := match wassoc np bk1 with Some l => l | None => [] end in
    let bk2 := wset np (wadd prefix par) bk1 in                            (*   .add(prefix) *)
    add_loop (mkfl tr2 bk2 (fl_fin s) (fl_sigs s)) np rest'
  end.

Definition add_to_trie (s : flst) (w : word) : flst := add_loop s [] w.

(* lines 2430-2432: every edge of the parent's row that leads to `p` now leads to `q` *)
Definition redirect (p q : word) (row : wrow) : wrow :=
  map (fun e => if word_eqb (snd e) p then (fst e, q) else e) row.

(* lines 2428-2433 *)
Fixpoint redirect_parents (p q : word) (parents : list word)
         (tr : list (word * wrow)) (bk : list (word * list word))
  : res (list (word * wrow) * list (word * list word)) :=
  match parents with
  | [] => Ok (tr, bk)
  | par :: rest =>
    match wassoc par tr with                                               (* path = transitions[parent_state] *)
    | None => Err KeyErr
    | Some path =>
      match wassoc q bk with                                               (* back_map[identical_state].add(parent_state) *)
      | None => Err KeyErr
      | Some l => redirect_parents p q rest (wset par (redirect p q path) tr) (wset q (wadd par l) bk)
      end
    end
  end.

(* lines 2416-2438: one round of the loop of compress *)
Definition compress_one (s : flst) (prefix : word) : res flst :=
  bind (compute_signature s prefix) (fun sg =>
    match sassoc sg (fl_sigs s) with
    | Some q =>                                                            (* identical_state is not None *)
      match wassoc prefix (fl_trans s), wassoc prefix (fl_back s) with
      | Some _, Some parents =>
        bind (redirect_parents prefix q parents (wdel prefix (fl_trans s)) (fl_back s)) (fun r =>
          Ok (mkfl (fst r) (snd r) (wdiscard prefix (fl_fin s)) (fl_sigs s)))
      | _, _ => Err KeyErr                                                 (* transitions.pop(prefix) / back_map[prefix] *)
      end
    | None => Ok (mkfl (fl_trans s) (fl_back s) (fl_fin s) (fl_sigs s ++ [(sg, prefix)]))
    end).

(* for i in range(len(word), lcp_len, -1): prefix = word[:i] - `k` rounds starting at `i` *)
Fixpoint compress_steps (s : flst) (w : word) (i k : nat) : res flst :=
  match k with
  | 0 => Ok s
  | S k' => bind (compress_one s (firstn i w)) (fun s' => compress_steps s' w (pred i) k')
  end.

(* lines 2408-2438 *)
Definition compress (s : flst) (w next : word) : res flst :=
  compress_steps s w (length w) (length w - lcp_len w next).

(* sorted(language) *)
Fixpoint word_insert (w : word) (l : list word) : list word :=
  match l with
  | [] => [w]
  | x :: r => if lex_leb w x then w :: l else x :: word_insert w r
  end.
Definition sort_words (l : list word) : list word := fold_right word_insert [] l.

(* lines 2444-2450 *)
Fixpoint fl_loop (s : flst) (prev : word) (rest : list word) : res flst :=
  match rest with
  | [] => compress s prev []
  | cur :: rest' => bind (compress s prev cur) (fun s1 => fl_loop (add_to_trie s1 cur) cur rest')
  end.

(* lines 2441-2450 *)
Definition fl_build (lang : list word) : res flst :=
  match sort_words lang with
  | [] => Err Empty                              (* not reached: the empty language returns before *)
  | w0 :: rest => fl_loop (add_to_trie fl_init w0) w0 rest
  end.

(* ---- from names to numbers ---- *)
Fixpoint windex (q : word) (l : list word) : option nat :=
  match l with
  | [] => None
  | x :: r => if word_eqb q x then Some 0 else option_map S (windex q r)
  end.

Definition fl_names (s : flst) : list word := map fst (fl_trans s).

(* a name that is not a key gets a number that is neither a state nor the trap *)
Definition wnum (keys : list word) (q : word) : nat :=
  match windex q keys with Some i => i | None => S (length keys) end.

(* the arguments of cls(...) at lines 2453-2460, numbered *)
Definition fl_number (syms : list nat) (s : flst) : dfa :=
  let keys := fl_names s in
  mkdfa (seq 0 (length keys)) syms
        (map (fun e => (wnum keys (fst e), map (fun c => (fst c, wnum keys (snd c))) (snd e))) (fl_trans s))
        (wnum keys []) (map (wnum keys) (fl_fin s)) true.

(* _to_complete (lines 367-398), unconditionally: every row becomes {**default_to_trap, **row}, the trap
   gets the row default_to_trap.  (A symbol of a row outside input_symbols would survive in Python and be
   refused by validate(); here validate() runs on the partial record first, which refuses the same inputs.) *)
Definition fl_complete (m : dfa) : dfa :=
  let trap := fresh_state m in
  mkdfa (d_states m ++ [trap]) (d_syms m)
        (map (fun r => (fst r, fill_row (d_syms m) trap (snd r))) (d_trans m)
             ++ [(trap, map (fun a => (a, trap)) (d_syms m))])
        (d_init m) (d_finals m) false.

Definition validated (m : dfa) : res dfa := bind (dfa_validate m) (fun _ => Ok m).

(* DFA.from_finite_language(input_symbols, language, as_partial) *)
Definition fl_dfa (syms : list nat) (lang : list word) (as_partial : bool) : res dfa :=
  match lang with
  | [] => Ok (empty_m syms)                                                  (* lines 2371-2372 *)
  | _ :: _ =>
    bind (fl_build lang) (fun s =>
    bind (validated (fl_number syms s)) (fun m =>
      if as_partial then Ok m else validated (fl_complete m)))
  end.

(* the prefix that names each state of the result (state i = i-th entry), for the harness *)
Definition fl_state_names (lang : list word) : res (list word) :=
  match lang with
  | [] => Ok []
  | _ :: _ => bind (fl_build lang) (fun s => Ok (fl_names s))
  end.
