(* automata/regex/lexer.py + the token registry of parser.py get_regex_lexer.
   The expression is a list of character codes.  Codes (fixed by the harness):
     0 ' '   1 '\t'                      blanks, dropped by the lexer
     2 '('   3 ')'   4 '|'   5 '&'   6 '^'   7 '*'   8 '+'   9 '?'   10 '.'
     11 '{'  12 '}'                      reserved; literals when not part of {..,..}
     13 ','                              an ordinary symbol outside a quantifier
     14 '\n'                             whitespace that `.` of the quantifier regex cannot cross
     15 other non-blank whitespace (\r \v \f): LexerError outside a quantifier
     16..25 '0'..'9'                     ordinary symbols outside a quantifier
     26..   every other character        ordinary symbols
   RESERVED_CHARACTERS of parser.py = codes 0..12. *)
From Coq Require Import List Arith Bool.
From AV Require Import Base.Util.
Import ListNotations.

Inductive token :=
| TSym (a : nat)      (* StringToken of one character *)
| TAny                (* WildcardToken *)
| TUnion | TInter | TShuffle
| TStar | TPlus | TOpt
| TQuant (lo : nat) (hi : option nat)
| TLParen | TRParen
| TConcat             (* ConcatToken(""), inserted *)
| TEmpty.             (* StringToken(""), inserted between "(" and ")" *)

Definition c_lbrace := 11.
Definition c_rbrace := 12.
Definition c_comma := 13.
Definition c_newline := 14.

Definition is_blank (c : nat) : bool := Nat.ltb c 2.
Definition is_ws (c : nat) : bool := Nat.eqb c 14 || Nat.eqb c 15.
Definition is_reserved (c : nat) : bool := Nat.ltb c 13.
Definition is_digit (c : nat) : bool := Nat.leb 16 c && Nat.leb c 25.

(* the one-character token regexes, in registration order (ties go to the first) *)
Definition single_token (c : nat) : option token :=
  match c with
  | 2 => Some TLParen | 3 => Some TRParen | 4 => Some TUnion | 5 => Some TInter
  | 6 => Some TShuffle | 7 => Some TStar | 8 => Some TPlus | 9 => Some TOpt
  | 10 => Some TAny
  | _ => None
  end.

(* `(.*?)stop` : the shortest run of non-newline characters followed by [stop] *)
Fixpoint scan_until (stop : nat) (cs : list nat) : option (list nat * list nat) :=
  match cs with
  | [] => None
  | c :: r =>
    if Nat.eqb c stop then Some ([], r)
    else if Nat.eqb c c_newline then None
    else match scan_until stop r with
         | Some (p, r') => Some (c :: p, r')
         | None => None
         end
  end.

(* \{(.*?),(.*?)\} applied right after the opening brace: the two groups *)
Definition quant_match (cs : list nat) : option (list nat * list nat) :=
  match scan_until c_comma cs with
  | Some (g1, r1) =>
    match scan_until c_rbrace r1 with
    | Some (g2, _) => Some (g1, g2)
    | None => None
    end
  | None => None
  end.

(* int(text): surrounding whitespace is stripped, then decimal digits only
   (signs, underscores, other digits are outside the documented syntax: ValueError) *)
Definition is_space (c : nat) : bool := is_blank c || Nat.eqb c 15.
Fixpoint lstrip (cs : list nat) : list nat :=
  match cs with
  | c :: r => if is_space c then lstrip r else cs
  | [] => []
  end.
Definition strip (cs : list nat) : list nat := rev (lstrip (rev (lstrip cs))).

Definition digits_value (cs : list nat) : nat :=
  fold_left (fun acc c => acc * 10 + (c - 16)) cs 0.

Definition parse_int (cs : list nat) : res nat :=
  let s := strip cs in
  match s with
  | [] => Err ValueErr
  | _ => if forallb is_digit s then Ok (digits_value s) else Err ValueErr
  end.

(* QuantifierToken.from_match + __init__ *)
(* `match.group(i).strip()` (repaired code): a bound that is empty or consists of blanks only is an omitted bound *)
Definition parse_bound (cs : list nat) : res (option nat) :=
  match strip cs with
  | [] => Ok None
  | _ => bind (parse_int cs) (fun n => Ok (Some n))
  end.

Definition mk_quant (g1 g2 : list nat) : res token :=
  bind (parse_bound g1) (fun lo =>
  bind (parse_bound g2) (fun hi =>
    let l := match lo with Some n => n | None => 0 end in
    match hi with
    | Some h => if Nat.ltb h l then Err (Invalid 10) else Ok (TQuant l (Some h))
    | None => Ok (TQuant l None)
    end)).

Definition cons_res (t : token) (r : res (list token)) : res (list token) :=
  bind r (fun ts => Ok (t :: ts)).

(* Lexer.lex: at each position the longest token match (first registered on ties); a
   character no token matches is skipped when blank and a LexerError otherwise.
   [skip] = characters of the current (quantifier) match still to be stepped over. *)
Fixpoint lex_aux (skip : nat) (cs : list nat) : res (list token) :=
  match cs with
  | [] => Ok []
  | c :: r =>
    match skip with
    | S k => lex_aux k r
    | 0 =>
      match single_token c with
      | Some t => cons_res t (lex_aux 0 r)
      | None =>
        if Nat.eqb c c_lbrace then
          match quant_match r with
          | Some (g1, g2) =>
            match mk_quant g1 g2 with
            | Ok t => cons_res t (lex_aux (length g1 + length g2 + 2) r)
            | Err e => Err e
            end
          | None => cons_res (TSym c) (lex_aux 0 r)      (* \S *)
          end
        else if is_blank c then lex_aux 0 r
        else if is_ws c then Err (Invalid 11)             (* LexerError *)
        else cons_res (TSym c) (lex_aux 0 r)              (* \S *)
      end
    end
  end.

Definition lex (cs : list nat) : res (list token) := lex_aux 0 cs.
