(* C02: executable models of the pushdown readers, decision by decision as in
   automata/pda/stack.py (top, pop, replace), automata/pda/pda.py (_has_lambda_transition,
   _replace_stack_top, _has_accepted), automata/pda/npda.py (_get_transitions,
   _get_next_configurations, read_input_stepwise) and automata/pda/dpda.py
   (_get_transition, _get_next_configuration, read_input_stepwise AFTER the repair that
   checks the start configuration for acceptance before the loop,
   _validate_transition_isolated_lambda_transitions, validate order).

   The stack keeps PYTHON's orientation: a tuple whose LAST element is the top.
   No proofs here. *)
From Coq Require Import List Arith Bool.
From AV Require Import Base.Util Spec.Lang Spec.FA Spec.PDA.
Import ListNotations.

(* ---------- PDAStack ---------- *)
Definition pystack := list nat.

(* top(): stack[-1]; Python answers '' on an empty stack, which is no stack symbol: None *)
Definition stack_top (s : pystack) : option nat :=
  match s with [] => None | _ => Some (last s 0) end.
(* pop(): stack[:-1] *)
Definition stack_pop (s : pystack) : pystack := removelast s.
(* replace(symbols): stack[:-1] + tuple(reversed(symbols)) *)
Definition stack_replace (s : pystack) (symbols : list nat) : pystack :=
  removelast s ++ rev symbols.
(* PDA._replace_stack_top: '' pops, anything else replaces *)
Definition replace_stack_top (s : pystack) (new_top : list nat) : pystack :=
  match new_top with [] => stack_pop s | _ => stack_replace s new_top end.

(* ---------- PDAConfiguration: (state, remaining_input, stack) ---------- *)
Definition cfg := (nat * word * pystack)%type.

Definition eqb_cfg (x y : cfg) : bool :=
  let '(q, w, s) := x in let '(q', w', s') := y in
  Nat.eqb q q' && eqb_list Nat.eqb w w' && eqb_list Nat.eqb s s'.

(* sets of configurations: first occurrences kept (the harness compares as sorted sets) *)
Fixpoint dedup (l : list cfg) : list cfg :=
  match l with
  | [] => []
  | x :: r => if existsb (eqb_cfg x) r then dedup r else x :: dedup r
  end.

(* ---------- shared PDA helpers ---------- *)
(* state in transitions and '' in transitions[state] and stack_symbol in transitions[state][''] *)
Definition has_lambda (m : pda) (q : nat) (top : option nat) : bool :=
  match assoc q (p_trans m) with
  | Some row => match oassoc None row with
                | Some tops => match top with Some Z => memb Z (map fst tops) | None => false end
                | None => false
                end
  | None => false
  end.

(* _has_accepted *)
Definition has_accepted (m : pda) (c : cfg) : bool :=
  let '(q, w, s) := c in
  match w with
  | _ :: _ => false
  | [] =>
    let by_stack := match s with [] => true | _ => false end in
    let by_state := memb q (p_finals m) in
    match p_mode m with
    | EmptyStack => by_stack
    | FinalState => by_state
    | BothModes => by_stack || by_state
    end
  end.

Definition start_cfg (m : pda) (w : word) : cfg := (p_init m, w, [p_init_stack m]).

(* ---------- NPDA ---------- *)
(* _get_transitions: (input_symbol, dest_state, new_stack_top) for each listed move *)
Definition npda_get_transitions (m : pda) (q : nat) (a : option nat) (top : option nat)
  : list (option nat * nat * list nat) :=
  match top with
  | None => []
  | Some Z => map (fun mv => (a, fst mv, snd mv)) (p_entry m q a Z)
  end.

(* _get_next_configurations *)
Definition npda_next (m : pda) (c : cfg) : list cfg :=
  let '(q, w, s) := c in
  let trs :=
    (match w with
     | a :: _ => npda_get_transitions m q (Some a) (stack_top s)
     | [] => []
     end) ++ npda_get_transitions m q None (stack_top s) in
  map (fun tr => let '(a, q', new_top) := tr in
                 (q', match a with Some _ => tl w | None => w end, replace_stack_top s new_top))
      trs.

(* body of the for loop in read_input_stepwise, for a configuration that is not accepting *)
Definition npda_expand (m : pda) (c : cfg) : list cfg :=
  let '(q, w, s) := c in
  match w with
  | _ :: _ => npda_next m c
  | [] => if has_lambda m q (stack_top s) then npda_next m c else []
  end.

(* the while loop, [cur] already yielded.  One unit of fuel per loop iteration.
   Result: the further sets yielded, and how the generator ends
   (Ok tt = returns, Err Reject = RejectionException). *)
Fixpoint npda_levels (m : pda) (fuel : nat) (cur : list cfg) : list (list cfg) * res unit :=
  match cur with
  | [] => ([], Err Reject)
  | _ =>
    match fuel with
    | 0 => ([], Err Fuel)
    | S f =>
      if existsb (has_accepted m) cur then ([], Ok tt)
      else let nxt := dedup (flat_map (npda_expand m) cur) in
           let (ys, r) := npda_levels m f nxt in (nxt :: ys, r)
    end
  end.

Definition npda_stepwise (m : pda) (fuel : nat) (w : word) : list (list cfg) * res unit :=
  let c0 := [start_cfg m w] in
  let (ys, r) := npda_levels m fuel c0 in (c0 :: ys, r).

Definition verdict_of (r : res unit) : res bool :=
  match r with Ok _ => Ok true | Err Reject => Ok false | Err e => Err e end.

Definition npda_accepts (m : pda) (fuel : nat) (w : word) : res bool :=
  verdict_of (snd (npda_stepwise m fuel w)).

(* ---------- DPDA ---------- *)
(* _get_transition: the three membership tests, then the single listed move *)
Definition dpda_get_transition (m : pda) (q : nat) (a : option nat) (top : option nat)
  : option (option nat * nat * list nat) :=
  match top with
  | None => None
  | Some Z =>
    match assoc q (p_trans m) with
    | Some row => match oassoc a row with
                  | Some tops => match assoc Z tops with
                                 | Some (mv :: _) => Some (a, fst mv, snd mv)
                                 | _ => None
                                 end
                  | None => None
                  end
    | None => None
    end
  end.

(* _get_next_configuration.  The set of candidate transitions has at most two members
   (symbol move, empty-string move); `transitions.pop()` on a two-element set is only
   reachable for tables the constructor refuses, the model then takes the symbol move.
   The rejection message indexes remaining_input[0]: IndexError when the input is empty. *)
Definition dpda_next (m : pda) (c : cfg) : res cfg :=
  let '(q, w, s) := c in
  let sym := match w with
             | a :: _ => dpda_get_transition m q (Some a) (stack_top s)
             | [] => None
             end in
  let eps := dpda_get_transition m q None (stack_top s) in
  let chosen := match sym with Some t => Some t | None => eps end in
  match chosen with
  | None => match w with [] => Err IndexErr | _ => Err Reject end
  | Some (a, q', new_top) =>
    Ok (q', match a with Some _ => tl w | None => w end, replace_stack_top s new_top)
  end.

Definition dpda_loop_cond (m : pda) (c : cfg) : bool :=
  let '(q, w, s) := c in
  match w with _ :: _ => true | [] => has_lambda m q (stack_top s) end.

(* _check_for_input_rejection *)
Definition dpda_check (m : pda) (c : cfg) : res unit :=
  if has_accepted m c then Ok tt else Err Reject.

(* the while loop of read_input_stepwise; one unit of fuel per iteration *)
Fixpoint dpda_loop (m : pda) (fuel : nat) (c : cfg) : list cfg * res unit :=
  if dpda_loop_cond m c then
    match fuel with
    | 0 => ([], Err Fuel)
    | S f =>
      match dpda_next m c with
      | Err e => ([], Err e)
      | Ok c' =>
        if has_accepted m c' then ([c'], Ok tt)
        else let (ys, r) := dpda_loop m f c' in (c' :: ys, r)
      end
    end
  else ([], dpda_check m c).

(* read_input_stepwise (repaired): yield the start configuration, stop if it accepts *)
Definition dpda_stepwise (m : pda) (fuel : nat) (w : word) : list cfg * res unit :=
  let c0 := start_cfg m w in
  if has_accepted m c0 then ([c0], Ok tt)
  else let (ys, r) := dpda_loop m fuel c0 in (c0 :: ys, r).

Definition dpda_accepts (m : pda) (fuel : nat) (w : word) : res bool :=
  verdict_of (snd (dpda_stepwise m fuel w)).

(* ---------- DPDA constructor: nondeterminism scan ---------- *)
(* _validate_transition_lambda_transition_sibling: no stack symbol of the sibling path is a
   key of transitions[start_state][''] *)
Definition det_sibling_ok (eps sib : ptops) : bool :=
  forallb (fun Z' => negb (memb Z' (map fst eps))) (map fst sib).

(* _validate_transition_isolated_lambda_transitions (its stack_symbol argument is unused) *)
Definition det_isolated_ok (row : prow) (a : option nat) : bool :=
  match a with
  | Some _ => true
  | None =>
    match oassoc None row with
    | None => true
    | Some eps =>
      forallb (fun p => match fst p with None => true | Some _ => det_sibling_ok eps (snd p) end) row
    end
  end.

(* the scan as validate() runs it: every state row, every input key, every stack key *)
Definition dpda_det_check (m : pda) : bool :=
  forallb (fun qr =>
    forallb (fun ar => forallb (fun _ => det_isolated_ok (snd qr) (fst ar)) (map fst (snd ar)))
            (snd qr))
    (p_trans m).

(* validate() of a DPDA in the library's order; the first broken rule is the exception:
   Invalid 2 = InvalidSymbolError, Invalid 20 = NondeterminismError,
   Invalid 1 = InvalidStateError.  The table is given in dict iteration order. *)
Fixpoint first_err (l : list (res unit)) : res unit :=
  match l with
  | [] => Ok tt
  | Ok _ :: r => first_err r
  | Err e :: _ => Err e
  end.

Definition guard (b : bool) (e : err) : res unit := if b then Ok tt else Err e.

Definition dpda_validate_row (m : pda) (row : prow) : list (res unit) :=
  flat_map (fun ar =>
    guard (match fst ar with Some a => memb a (p_syms m) | None => true end) (Invalid 2)
    :: flat_map (fun Z => [guard (det_isolated_ok row (fst ar)) (Invalid 20);
                           guard (memb Z (p_stack_syms m)) (Invalid 2)])
                (map fst (snd ar)))
    row.

Definition dpda_validate (m : pda) : res unit :=
  first_err (flat_map (fun qr => dpda_validate_row m (snd qr)) (p_trans m)
             ++ [guard (memb (p_init m) (p_states m)) (Invalid 1);
                 guard (memb (p_init_stack m) (p_stack_syms m)) (Invalid 2);
                 guard (subsetb (p_finals m) (p_states m)) (Invalid 1)]).
