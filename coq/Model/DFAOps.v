(* C04: DFA Boolean operations (union/intersection/difference/symmetric_difference through
   _cross_product + _expand_dfa), complement, to_complete, to_partial.  State names of
   results are the discovery indices (retain_names=False view; any naming is isomorphic). *)
From Coq Require Import List Arith Bool.
From AV Require Import Base.Util Base.Closure Spec.Lang Spec.FA Model.Decide Model.Product Model.Build.
Import ListNotations.

Inductive bop := Union | Inter | Diff | SymDiff.

Definition op_lrel (o : bop) : bool := match o with Union | SymDiff => true | Inter | Diff => false end.
Definition op_rrel (o : bop) : bool := match o with Union | SymDiff | Diff => true | Inter => false end.
Definition op_bool (o : bop) (a b : bool) : bool :=
  match o with Union => a || b | Inter => a && b | Diff => a && negb b | SymDiff => xorb a b end.
Definition op_final (A B : dfa) (o : bop) (p : pst) : bool := op_bool o (ofinal A (fst p)) (ofinal B (snd p)).

Definition binop_m (o : bop) (A B : dfa) : res dfa :=
  guard_syms A B
    (build_dfa pst peqb (cross_expand A B (op_lrel o) (op_rrel o)) (op_final A B o)
               (d_syms A) (cross_fuel A B) (Some (d_init A), Some (d_init B))).

(* to_complete *)
Definition rows_partial (m : dfa) : bool :=
  existsb (fun r => negb (Nat.eqb (length (snd r)) (length (d_syms m)))) (d_trans m).
Definition fresh_state (m : dfa) : nat := S (fold_right Nat.max 0 (d_states m ++ map fst (d_trans m))).
Definition fill_row (syms : list nat) (trap : nat) (row : list (nat * nat)) : list (nat * nat) :=
  map (fun a => (a, match assoc a row with Some t => t | None => trap end)) syms.
Definition to_complete_m (m : dfa) : dfa :=
  if rows_partial m then
    let trap := fresh_state m in
    mkdfa (d_states m ++ [trap]) (d_syms m)
          (map (fun r => (fst r, fill_row (d_syms m) trap (snd r))) (d_trans m)
               ++ [(trap, map (fun a => (a, trap)) (d_syms m))])
          (d_init m) (d_finals m) false
  else m.

Definition complement_m (m : dfa) : dfa :=
  let c := if d_partial m then to_complete_m m else m in
  mkdfa (d_states c) (d_syms c) (d_trans c) (d_init c)
        (filter (fun q => negb (memb q (d_finals c))) (d_states c)) false.

(* to_partial(minify=False) *)
Definition to_partial_m (m : dfa) : res dfa :=
  bind (reach_states m) (fun acc =>
  bind (coreach_states m) (fun co =>
    let keep := set_add (d_init m) (set_of (filter (fun q => memb q co) acc)) in
    Ok (mkdfa keep (d_syms m)
              (map (fun r => (fst r, filter (fun ct => memb (snd ct) co) (snd r)))
                   (filter (fun r => memb (fst r) keep) (d_trans m)))
              (d_init m) (filter (fun q => memb q keep) (d_finals m)) true))).

(* finite expression trees over these operations *)
Inductive dexpr :=
| DLeaf (m : dfa)
| DBin (o : bop) (a b : dexpr)
| DCompl (a : dexpr).

Fixpoint deval (e : dexpr) : res dfa :=
  match e with
  | DLeaf m => Ok m
  | DBin o a b => bind (deval a) (fun x => bind (deval b) (fun y => binop_m o x y))
  | DCompl a => bind (deval a) (fun x => Ok (complement_m x))
  end.

Fixpoint dsem (e : dexpr) (w : word) : bool :=
  match e with
  | DLeaf m => dfa_acc m w
  | DBin o a b => op_bool o (dsem a w) (dsem b w)
  | DCompl a => negb (dsem a w)
  end.
