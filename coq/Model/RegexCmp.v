(* automata/regex/regex.py: isequal / issubset / issuperset.
   `nfa1 == nfa2` answers False (NotImplemented on both sides) when the alphabets differ and
   otherwise decides language equality (modelled by the verified comparator nfa_diff; the
   Hopcroft-Karp bookkeeping is not observable).  `nfa1.union(nfa2)` is modelled by the
   builder's own union of the two fragments over the united alphabet (NFA.union itself is
   the subject of C08); only its language and alphabet are observable through `==`. *)
From Coq Require Import List Arith Bool.
From AV Require Import Base.Util Spec.Lang Spec.FA Spec.Regex
                       Model.RegexLex Model.RegexParse Model.RegexBuild Model.Decide.
Import ListNotations.

Definition same_set (a b : list nat) : bool := subsetb a b && subsetb b a.

(* NFA.__eq__ *)
Definition nfa_eqb (A B : nfa) : res bool :=
  if same_set (n_syms A) (n_syms B)
  then match nfa_diff A B with
       | Ok None => Ok true
       | Ok (Some _) => Ok false
       | Err e => Err e
       end
  else Ok false.

(* the pair of from_regex calls every helper starts with: alphabets, ASTs, error order *)
Definition two_regexes (a b : list nat) (alpha : option (list nat))
  : res ((list nat * re) * (list nat * re)) :=
  bind (alphabet_of a alpha) (fun sa =>
  bind (parse a) (fun ra =>
  bind (compile_re sa ra) (fun _ =>
  bind (alphabet_of b alpha) (fun sb =>
  bind (parse b) (fun rb =>
  bind (compile_re sb rb) (fun _ => Ok ((sa, ra), (sb, rb)))))))).

(* the union NFA of the two compiled expressions, over the united alphabet *)
Definition union_nfa (sa : list nat) (ra : re) (sb : list nat) (rb : re) : nfa :=
  let (A, c1) := build sa ra 0 in
  let (B, c2) := build sb rb 0 in
  nfa_of (set_of (sa ++ sb)) (fst (f_union A (shiftf c1 B) (c1 + c2))).   (* B renamed apart *)

Definition isequal (a b : list nat) (alpha : option (list nat)) : res bool :=
  bind (two_regexes a b alpha) (fun p =>
    let '((sa, ra), (sb, rb)) := p in
    nfa_eqb (nfa_of sa (fst (build sa ra 0))) (nfa_of sb (fst (build sb rb 0)))).

Definition issubset (a b : list nat) (alpha : option (list nat)) : res bool :=
  bind (two_regexes a b alpha) (fun p =>
    let '((sa, ra), (sb, rb)) := p in
    nfa_eqb (union_nfa sa ra sb rb) (nfa_of sb (fst (build sb rb 0)))).

Definition issuperset (a b : list nat) (alpha : option (list nat)) : res bool :=
  bind (two_regexes a b alpha) (fun p =>
    let '((sa, ra), (sb, rb)) := p in
    nfa_eqb (union_nfa sa ra sb rb) (nfa_of sa (fst (build sa ra 0)))).
