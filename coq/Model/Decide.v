(* Verified comparators: a distinguishing word for two deterministic systems,
   explored as a product with the keyed closure (shortest word first).
   Instances: DFA vs DFA (None sinks for partial DFAs), NFA vs NFA / NFA vs DFA
   through the on-the-fly subset construction. *)
From Coq Require Import List Arith Bool.
From AV Require Import Base.Util Base.Closure Base.KClosure Spec.Lang Spec.FA.
Import ListNotations.

Section GDiff.
  Variables X Y : Type.
  Variable eqbX : X -> X -> bool.
  Variable eqbY : Y -> Y -> bool.
  Variable stepX : X -> nat -> X.
  Variable stepY : Y -> nat -> Y.
  Variable finX : X -> bool.
  Variable finY : Y -> bool.

  Definition gitem : Type := (X * Y) * word.          (* access word, reversed *)
  Definition gsucc (syms : list nat) (x : gitem) : list gitem :=
    map (fun a => ((stepX (fst (fst x)) a, stepY (snd (fst x)) a), a :: snd x)) syms.

  Definition gexplore (syms : list nat) (fuel : nat) (x0 : X) (y0 : Y) : option (list gitem) :=
    kclosure fst (eqb_pair eqbX eqbY) (gsucc syms) fuel [((x0, y0), [])].

  Definition gbad (x : gitem) : bool := xorb (finX (fst (fst x))) (finY (snd (fst x))).

  (* Some None: no reachable pair disagrees; Some (Some w): w is accepted by exactly one side *)
  Definition gdiff (syms : list nat) (fuel : nat) (x0 : X) (y0 : Y) : option (option word) :=
    match gexplore syms fuel x0 y0 with
    | None => None
    | Some items => Some (match find gbad items with
                          | Some x => Some (rev (snd x))
                          | None => None
                          end)
    end.
End GDiff.

Definition ores {A} (o : option A) : res A := match o with Some x => Ok x | None => Err Fuel end.

(* ---- DFA vs DFA ---- *)
Definition dfa_diff_fuel (A B : dfa) : nat := S (S (length (d_states A)) * S (length (d_states B))).

Definition dfa_diff (A B : dfa) : res (option word) :=
  ores (gdiff (option nat) (option nat) (eqb_opt Nat.eqb) (eqb_opt Nat.eqb)
              (ostep A) (ostep B) (ofinal A) (ofinal B)
              (set_union (d_syms A) (d_syms B)) (dfa_diff_fuel A B)
              (Some (d_init A)) (Some (d_init B))).

(* ---- subset construction on the fly ---- *)
Definition eclose (m : nfa) (q : nat) : list nat :=
  match closure Nat.eqb (fun p => n_targets m p None) (S (length (n_states m))) [q] with
  | Some c => set_of c
  | None => []
  end.

Definition nset_step (m : nfa) (S : list nat) (a : nat) : list nat :=
  set_of (flat_map (fun q => flat_map (eclose m) (n_targets m q (Some a))) S).
Definition nset_final (m : nfa) (S : list nat) : bool := existsb (fun q => memb q (n_finals m)) S.
Definition nset_init (m : nfa) : list nat := eclose m (n_init m).

Definition pow2 (n : nat) : nat := Nat.pow 2 n.
(* fuel is a unary nat in the extracted driver: the exact bound 2^a * 2^b only for small
   operands, a fixed large budget otherwise (any fuel is sound; Err Fuel when exhausted) *)
Definition big_fuel : nat := 300 * 1000.
Definition nfa_diff_fuel (A B : nfa) : nat :=
  if Nat.leb (length (n_states A) + length (n_states B)) 14
  then S (pow2 (length (n_states A)) * pow2 (length (n_states B))) else big_fuel.

Definition nfa_diff (A B : nfa) : res (option word) :=
  ores (gdiff (list nat) (list nat) (eqb_list Nat.eqb) (eqb_list Nat.eqb)
              (nset_step A) (nset_step B) (nset_final A) (nset_final B)
              (set_union (n_syms A) (n_syms B)) (nfa_diff_fuel A B)
              (nset_init A) (nset_init B)).

Definition nfa_dfa_diff (A : nfa) (B : dfa) : res (option word) :=
  ores (gdiff (list nat) (option nat) (eqb_list Nat.eqb) (eqb_opt Nat.eqb)
              (nset_step A) (ostep B) (nset_final A) (ofinal B)
              (set_union (n_syms A) (d_syms B))
              (if Nat.leb (length (n_states A)) 14
               then S (pow2 (length (n_states A)) * S (length (d_states B))) else big_fuel)
              (nset_init A) (Some (d_init B))).

(* membership by the subset run (used by matchers and word-level cross checks) *)
Definition nfa_acc (m : nfa) (w : word) : bool :=
  nset_final m (fold_left (nset_step m) w (nset_init m)).
