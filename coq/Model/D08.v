(* C08 dispatch: NFA regular operations.
   binary ops  [A, B, impl, cap]   unary ops  [A, impl, cap]
     impl = [1, nfa] (the implementation's result) or [0, code] (it raised)
     cap  = fuel for the comparison
   answer  [model result, cmp]   cmp = [valid impl, diff model impl] when both are automata, [] otherwise
   op 1 union  2 concatenate  3 kleene_star  4 option  5 reverse  6 intersection
      7 shuffle_product  8 right_quotient  9 left_quotient  10 eliminate_lambda *)
From Coq Require Import List Arith NArith Bool.
From AV Require Import Base.Util Base.ITree Spec.Lang Spec.FA Model.Codec Model.Decide Model.D00 Model.NFAOps.
Import ListNotations.

Definition dec_impl (t : itree) : option (option nfa) :=
  match t with
  | L [I 1%N; tn] => match dec_nfa tn with Some n => Some (Some n) | None => None end
  | L [I 0%N; _] => Some None
  | _ => None
  end.

Definition answer08 (r : res nfa) (impl : option nfa) (cap : nat) : itree :=
  L [enc_res enc_nfa r;
     match r, impl with
     | Ok m, Some i => L [Ib (valid_nfa i); enc_diff (nfa_diff_cap cap m i)]
     | _, _ => L []
     end].

Definition binop08 (op : nat) : option (nfa -> nfa -> res nfa) :=
  match op with
  | 1 => Some nfa_union | 2 => Some nfa_concat | 6 => Some nfa_intersection
  | 7 => Some nfa_shuffle | 8 => Some nfa_right_quotient | 9 => Some nfa_left_quotient
  | _ => None
  end.
Definition unop08 (op : nat) : option (nfa -> res nfa) :=
  match op with
  | 3 => Some nfa_star | 4 => Some nfa_option | 5 => Some nfa_reverse | 10 => Some nfa_eliminate_lambda
  | _ => None
  end.

Definition d08 (op : nat) (t : itree) : itree :=
  match t with
  | L [ta; tb; ti; tc] =>
    match binop08 op, dec_nfa ta, dec_nfa tb, dec_impl ti, dec_nat tc with
    | Some f, Some a, Some b, Some i, Some c => answer08 (f a b) i c
    | _, _, _, _, _ => bad_input
    end
  | L [ta; ti; tc] =>
    match unop08 op, dec_nfa ta, dec_impl ti, dec_nat tc with
    | Some f, Some a, Some i, Some c => answer08 (f a) i c
    | _, _, _, _ => bad_input
    end
  | _ => bad_input
  end.
