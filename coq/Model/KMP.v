(* C15: mirror model of DFA.from_substring (automata/fa/dfa.py, lines 1855-1907): the
   Knuth-Morris-Pratt failure table and the transition loop, decision by decision.

   Encoding: the table holds ints >= -1 (array.array("i")).  An entry / the variable `candidate`
   is modelled as `option nat` with None = -1 and Some k = k, so that
     `candidate >= 0` / `candidate != -1`   = "is Some",
     `candidate += 1`                       = cinc (None -> 0, Some k -> k+1).
   Indexing a str / array out of range raises IndexError (negative indices are excluded by
   the guards, as in the code): Err IndexErr.  The two `while` loops run on explicit fuel
   (|pattern|+1; Err Fuel on exhaustion).  Proofs/KMP.v: neither error ever occurs and the
   automaton is, row by row, the specification model from_substring_m of Model/Construct.v. *)
From Coq Require Import List Arith Bool.
From AV Require Import Base.Util Spec.Lang Spec.FA Spec.Preds Model.Construct.
Import ListNotations.

Definition cand := option nat.
Definition cinc (c : cand) : nat := match c with None => 0 | Some k => S k end.

(* kmp_table[i] = v *)
Fixpoint upd {A} (l : list A) (i : nat) (v : A) : list A :=
  match l, i with
  | [], _ => []
  | _ :: r, 0 => v :: r
  | x :: r, S j => x :: upd r j v
  end.

(* T[k] / substring[k] *)
Definition idx {A} (l : list A) (k : nat) : res A :=
  match nth_error l k with Some x => Ok x | None => Err IndexErr end.

(* lines 1883-1884 and 1894-1895:
     while candidate >= 0 and char != substring[candidate]: candidate = kmp_table[candidate] *)
Fixpoint walk (p : word) (T : list cand) (ch : nat) (fuel : nat) (c : cand) : res cand :=
  match fuel with
  | 0 => Err Fuel
  | S fuel' =>
    match c with
    | None => Ok None
    | Some k =>
      bind (idx p k) (fun x =>
        if Nat.eqb x ch then Ok c
        else bind (idx T k) (fun c' => walk p T ch fuel' c'))
    end
  end.

(* one round of `for i, char in enumerate(substring)` for i >= 1 (lines 1876-1885);
   state = (kmp_table, candidate), candidate >= 0 at the top of every round *)
Definition kmp_round (p : word) (st : list cand * nat) (i : nat) : res (list cand * nat) :=
  let (T, c) := st in
  bind (idx p i) (fun ch =>
  bind (idx p c) (fun pc =>
    if Nat.eqb ch pc then                           (* elif char == substring[candidate]: *)
      bind (idx T c) (fun v => Ok (upd T i v, S c))     (* kmp_table[i] = kmp_table[candidate]; candidate += 1 *)
    else                                            (* else: *)
      let T' := upd T i (Some c) in                     (* kmp_table[i] = candidate *)
      bind (walk p T' ch (S (length p)) (Some c)) (fun c' => Ok (T', cinc c')))).

Fixpoint kmp_rounds (p : word) (st : list cand * nat) (is : list nat) : res (list cand * nat) :=
  match is with
  | [] => Ok st
  | i :: r => bind (kmp_round p st i) (fun st' => kmp_rounds p st' r)
  end.

(* lines 1874-1886: the table, |p|+1 entries; round i = 0 is `continue` (candidate stays 0) *)
Definition kmp_table (p : word) : res (list cand) :=
  bind (kmp_rounds p (repeat None (length p), 0) (seq 1 (length p - 1)))
       (fun st => Ok (fst st ++ [Some (snd st)])).                   (* kmp_table.append(candidate) *)

(* lines 1893-1897: the target of state i on `symbol` *)
Definition kmp_next (p : word) (T : list cand) (i a : nat) : res nat :=
  bind (if Nat.ltb i (length p) then Ok (Some i) else idx T i) (fun c0 =>
  bind (walk p T a (S (length p)) c0) (fun c => Ok (cinc c))).

Fixpoint mapM {A B} (f : A -> res B) (l : list A) : res (list B) :=
  match l with
  | [] => Ok []
  | x :: r => bind (f x) (fun y => bind (mapM f r) (fun ys => Ok (y :: ys)))
  end.

(* the row of state i: walked for i < limit, the constant row of line 1866 for the full-match
   state when not must_be_suffix *)
Definition kmp_row (syms : list nat) (p : word) (T : list cand) (ms : bool) (i : nat) : res (nat * list (nat * nat)) :=
  let limit := if ms then S (length p) else length p in
  bind (if Nat.ltb i limit
        then mapM (fun a => bind (kmp_next p T i a) (fun t => Ok (a, t))) syms
        else Ok (map (fun a => (a, length p)) syms))
       (fun row => Ok (i, row)).

Definition kmp_dfa (syms : list nat) (p : word) (contains ms : bool) : res dfa :=
  match p with
  | [] => Ok (if contains then universal_m syms else empty_m syms)        (* lines 1855-1861 *)
  | _ :: _ =>
    let n := length p in
    bind (kmp_table p) (fun T =>
    bind (mapM (kmp_row syms p T ms) (seq 0 (S n))) (fun rows =>
      Ok (mkdfa (seq 0 (S n)) syms rows 0
                (filter (fun q => flagb contains (Nat.eqb q n)) (seq 0 (S n))) false)))
  end.
