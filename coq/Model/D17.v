(* C17 dispatch: single-tape simulation of a multitape machine *)
From Coq Require Import List Arith NArith Bool.
From AV Require Import Base.Util Base.ITree Spec.TM Model.TM Model.D03 Model.MNTMSim.
Import ListNotations.

(* extended-tape symbols on the wire: 0 = head marker, 1 = separator, s+2 = tape symbol s *)
Definition enc_esym (x : esym) : itree :=
  match x with Head => In_ 0 | Sep => In_ 1 | Sym s => In_ (S (S s)) end.

Definition enc_ecfg (c : ecfg) : itree :=
  L [In_ (fst (fst c)); enc_list enc_esym (snd (fst c)); In_ (snd c)].

(* op 1: [mntm, fuel, word] -> [yields, outcome, verdict] of read_input_as_ntm
   op 2: [mntm, fuel_sim, fuel_native, word] -> [verdict of the simulation, verdict of the native run] *)
Definition d17 (op : nat) (t : itree) : itree :=
  match op, t with
  | 1, L [tm; tf; tw] =>
    match dec_mntm tm, dec_nat tf, dec_nl tw with
    | Some m, Some f, Some w =>
      let (ys, o) := sim_stepwise m f w in
      L [enc_list enc_ecfg ys; enc_res enc_ecfg o; enc_res Ib (sim_accepts m f w)]
    | _, _, _ => bad_input
    end
  | 2, L [tm; tf; tg; tw] =>
    match dec_mntm tm, dec_nat tf, dec_nat tg, dec_nl tw with
    | Some m, Some f, Some g, Some w =>
      L [enc_res Ib (sim_accepts m f w); enc_res Ib (mntm_accepts m g w)]
    | _, _, _, _ => bad_input
    end
  | _, _ => bad_input
  end.
