(* C02 dispatch: ops on (pda table, word, fuel).
   PDA on the wire: [states, syms, stack_syms, trans, init, init_stack, finals, mode]
     trans = [[q, [[osym, [[Z, [[q', [push...]], ...]], ...]], ...]], ...]   (dict iteration order)
     osym: 0 = empty string, k+1 = input symbol k;  mode: 0 final_state, 1 empty_stack, 2 both
   configuration: [state, [remaining input], [stack, top LAST]] *)
From Coq Require Import List Arith NArith Bool.
From AV Require Import Base.Util Base.ITree Spec.Lang Spec.FA Spec.PDA Spec.PDARank Model.Codec Model.PDA.
Import ListNotations.

Definition dec_mode (t : itree) : option acc_mode :=
  match dec_nat t with
  | Some 0 => Some FinalState
  | Some 1 => Some EmptyStack
  | Some 2 => Some BothModes
  | _ => None
  end.

Definition dec_pmove : itree -> option pmove := dec_pair dec_nat dec_nats.
Definition dec_ptops : itree -> option ptops := dec_list (dec_pair dec_nat (dec_list dec_pmove)).
Definition dec_prow : itree -> option prow := dec_list (dec_pair dec_osym dec_ptops).

Definition dec_pda (t : itree) : option pda :=
  match t with
  | L [ts; ty; tk; ttr; ti; tz; tf; tm] =>
    match dec_nats ts, dec_nats ty, dec_nats tk, dec_list (dec_pair dec_nat dec_prow) ttr,
          dec_nat ti, dec_nat tz, dec_nats tf, dec_mode tm with
    | Some s, Some y, Some k, Some tr, Some i, Some z, Some f, Some md =>
      Some (mkpda s y k tr i z f md)
    | _, _, _, _, _, _, _, _ => None
    end
  | _ => None
  end.

Definition enc_cfg (c : cfg) : itree :=
  let '(q, w, s) := c in L [In_ q; enc_nats w; enc_nats s].
Definition enc_unit (_ : unit) : itree := L [].

(* op 1: NPDA stepwise  [pda, word, fuel] -> [levels, outcome, accepts]
   op 2: DPDA stepwise  [pda, word, fuel] -> [configurations, outcome, accepts]
   op 3: DPDA constructor  pda -> [validate outcome, det_check, dpda_shape, valid_pda]
   op 4: fuel sufficiency  [pda, ranks (rank of state number i = i-th entry, 0 beyond), N, word]
         -> [eps_ranked, pda_fuel_bound N m w, eps_shrinking] *)
Definition d02 (op : nat) (t : itree) : itree :=
  match op, t with
  | 1, L [tm; tw; tf] =>
    match dec_pda tm, dec_word tw, dec_nat tf with
    | Some m, Some w, Some f =>
      let (ys, o) := npda_stepwise m f w in
      L [enc_list (enc_list enc_cfg) ys; enc_res enc_unit o; enc_res Ib (npda_accepts m f w)]
    | _, _, _ => bad_input
    end
  | 2, L [tm; tw; tf] =>
    match dec_pda tm, dec_word tw, dec_nat tf with
    | Some m, Some w, Some f =>
      let (ys, o) := dpda_stepwise m f w in
      L [enc_list enc_cfg ys; enc_res enc_unit o; enc_res Ib (dpda_accepts m f w)]
    | _, _, _ => bad_input
    end
  | 3, tm =>
    match dec_pda tm with
    | Some m => L [enc_res enc_unit (dpda_validate m); Ib (dpda_det_check m); Ib (dpda_shape m);
                   Ib (valid_pda m)]
    | None => bad_input
    end
  | 4, L [tm; tr; tn; tw] =>
    match dec_pda tm, dec_nats tr, dec_nat tn, dec_word tw with
    | Some m, Some ranks, Some n, Some w =>
      L [Ib (eps_ranked (fun q => nth q ranks 0) n m); In_ (pda_fuel_bound n m w); Ib (eps_shrinking m)]
    | _, _, _, _ => bad_input
    end
  | _, _ => bad_input
  end.
