(* C12 dispatch: state elimination at AST level, and the bounded cross checks of the resulting
   expression against the source automaton / the NFA the library compiled from its own string. *)
From Coq Require Import List Arith NArith Bool.
From AV Require Import Base.Util Base.ITree Spec.Lang Spec.FA Spec.Regex0 Model.Codec Model.Decide Model.GNFA
                       Model.GNFAStr Model.RegexParse Model.RegexBuild.
Import ListNotations.

Fixpoint enc_rex (r : rex) : itree :=
  match r with
  | REmpty => L [I 0%N]
  | REps => L [I 1%N]
  | RSym a => L [I 2%N; In_ a]
  | RUnion r s => L [I 3%N; enc_rex r; enc_rex s]
  | RCat r s => L [I 4%N; enc_rex r; enc_rex s]
  | RStar r => L [I 5%N; enc_rex r]
  end.

Fixpoint rex_size (r : rex) : nat :=
  match r with
  | RUnion r s | RCat r s => S (rex_size r + rex_size s)
  | RStar r => S (rex_size r)
  | _ => 1
  end.

Definition enc_owd (o : option word) : itree := enc_opt enc_nats o.

(* answer: [gnfa valid, expression, size, first word <= k where expression and source disagree,
            first word <= k where expression and the implementation's compiled NFA disagree] *)
Definition answer (g : gnfa) (order syms : list nat) (k : nat) (src : word -> bool) (impl : option nfa) : itree :=
  let r := elim g order in
  L [Ib (valid_gnfa g); enc_rex r; In_ (rex_size r);
     enc_owd (rex_diff_upto r src syms k);
     match impl with
     | Some n => enc_owd (rex_diff_upto r (nfa_acc n) syms k)
     | None => L []
     end].

(* ---- the string level (Model/GNFAStr.v) ----
   op 3: [dfa, schedule, mode, impl string?]    GNFA.from_dfa(d).to_regex()
   op 4: [nfa, schedule, mode, impl string?]    GNFA.from_nfa(n).to_regex()
   The automaton is sent with its rows in the iteration order of the Python dicts and with the
   character codes of Model/RegexLex.v as symbols.  schedule = one candidate order per loop
   iteration (the iteration order of _find_min_connected_node's dict).
   mode: 0 / 1 = the loop of to_regex under the schedule (1: also check the model's string);
         2 / 3 = rip along the concatenation of the schedule without looking at the degrees
                 (used when the implementation's choice could not be reproduced; 3: also check).
   answer: [res [string?, rip order],
            check of the model's string (when mode is odd and there is one),
            check of the implementation's string (when given)]
   check = [model parser verdict, res (first word on which the NFA the model compiles from the
            string and the source disagree)] *)

Definition enc_str_res (r : res (option str * list nat)) : itree :=
  enc_res (fun x => L [enc_opt enc_nats (fst x); enc_nats (snd x)]) r.

Definition chk_str (syms : list nat) (diff : nfa -> res (option word)) (s : str) : itree :=
  L [enc_res (fun _ => L []) (parse s);
     enc_res (enc_opt enc_nats) (bind (compile s (Some syms)) diff)].

Definition run_str (g : sg) (sched : list (list nat)) (mode : nat) : res (option str * list nat) :=
  if Nat.leb 2 mode then Ok (selim g (concat sched), concat sched) else sto_regex g sched.

Definition answer_str (r : res (option str * list nat)) (syms : list nat) (diff : nfa -> res (option word))
    (mode : nat) (impl : option str) : itree :=
  L [enc_str_res r;
     match r, Nat.odd mode with
     | Ok (Some s, _), true => chk_str syms diff s
     | _, _ => L []
     end;
     match impl with Some s => chk_str syms diff s | None => L [] end].

Definition d12 (op : nat) (t : itree) : itree :=
  match op, t with
  | 1, L [td; to; tk; ti] =>      (* GNFA.from_dfa(d).to_regex() with the given rip order *)
    match dec_dfa td, dec_nats to, dec_nat tk, dec_opt dec_nfa ti with
    | Some d, Some order, Some k, Some impl =>
      answer (gnfa_of_dfa d) order (d_syms d) k (dfa_acc d) impl
    | _, _, _, _ => bad_input
    end
  | 2, L [tn; to; tk; ti] =>      (* GNFA.from_nfa(n).to_regex() *)
    match dec_nfa tn, dec_nats to, dec_nat tk, dec_opt dec_nfa ti with
    | Some n, Some order, Some k, Some impl =>
      answer (gnfa_of_nfa n) order (n_syms n) k (nfa_acc n) impl
    | _, _, _, _ => bad_input
    end
  | 3, L [td; ts; tf; ti] =>
    match dec_dfa td, dec_list dec_nats ts, dec_nat tf, dec_opt dec_nats ti with
    | Some d, Some sched, Some full, Some impl =>
      answer_str (run_str (sgnfa_of_dfa d) sched full) (d_syms d) (fun m => nfa_dfa_diff m d) full impl
    | _, _, _, _ => bad_input
    end
  | 4, L [tn; ts; tf; ti] =>
    match dec_nfa tn, dec_list dec_nats ts, dec_nat tf, dec_opt dec_nats ti with
    | Some n, Some sched, Some full, Some impl =>
      answer_str (run_str (sgnfa_of_nfa n) sched full) (n_syms n) (fun m => nfa_diff m n) full impl
    | _, _, _, _ => bad_input
    end
  | _, _ => bad_input
  end.

