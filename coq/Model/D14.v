(* C14 dispatch: [dfa, start?, strict, lo, hi?] ->
   op 1: [successors, successor]; op 2: [predecessors, predecessor] (specification model);
   op 3 / op 4: the mirror stack machine, forward / reverse: [generated list] *)
From Coq Require Import List Arith NArith Bool.
From AV Require Import Base.Util Base.ITree Spec.Lang Spec.FA Model.Codec Model.Succ Model.SuccMachine.
Import ListNotations.

Definition enc_words (l : list word) : itree := enc_list enc_nats l.

Definition d14 (op : nat) (t : itree) : itree :=
  match t with
  | L [tm; ts; tb; tlo; thi] =>
    match dec_dfa tm, dec_opt dec_word ts, dec_bool tb, dec_nat tlo, dec_opt dec_nat thi with
    | Some m, Some start, Some strict, Some lo, Some ohi =>
      match op with
      | 1 => L [enc_res enc_words (succ_m m start strict lo ohi);
                enc_res (enc_opt enc_nats) (successor_m m start strict lo ohi)]
      | 2 => L [enc_res enc_words (pred_m m start strict lo ohi);
                enc_res (enc_opt enc_nats) (predecessor_m m start strict lo ohi)]
      | 3 => L [enc_res enc_words (succ_machine (machine_fuel m start ohi) m start strict false lo ohi)]
      | 4 => L [enc_res enc_words (succ_machine (machine_fuel m start ohi) m start strict true lo ohi)]
      | _ => bad_input
      end
    | _, _, _, _, _ => bad_input
    end
  | _ => bad_input
  end.
