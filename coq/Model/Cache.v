(* C20: the DFA object as a state machine - definition, the two length-indexed caches
   (_count_cache, _word_cache: one table per length, grown on demand, reset by clear_cache)
   and the cached_method memos (values only: lru_cache does not remember exceptions) - and the
   public queries as transitions  step : obj -> query -> obj * answer.
   Mirrors automata/fa/dfa.py: _populate_count_cache_up_to_len, _populate_word_cache_up_to_len,
   count_words_of_length, words_of_length (a generator: the cache is filled when the first item
   is requested), random_word (reads the count cache), cardinality / minimum_word_length /
   maximum_word_length / isempty / isfinite (memoised, calling each other), __iter__ (repaired),
   clear_cache (resets the two caches, not the memos).
   pure : dfa -> query -> answer  is the answer of the C13 models, with no state at all. *)
From Coq Require Import List Arith NArith Bool.
From AV Require Import Base.Util Spec.Lang Spec.FA Model.Count.
Import ListNotations.

Definition clevel := list (nat * N).
Definition wlevel := list (nat * list word).

(* defaultdict(int) / defaultdict(list) lookups *)
Definition cget (lv : clevel) (q : nat) : N := match assoc q lv with Some v => v | None => 0%N end.
Definition wget (lv : wlevel) (q : nat) : list word := match assoc q lv with Some v => v | None => [] end.

Definition clevel0 (m : dfa) : clevel := map (fun q => (q, 1%N)) (d_finals m).
Definition cnext (m : dfa) (prev : clevel) : clevel :=
  map (fun q => (q, Nsum (map (fun p => cget prev (snd p)) (row_of m q)))) (d_states m).

Definition wlevel0 (m : dfa) : wlevel := map (fun q => (q, [[]])) (d_finals m).
Definition wnext (m : dfa) (prev : wlevel) : wlevel :=
  map (fun q => (q, flat_map (fun a => match d_delta m q a with
                                       | Some t => map (cons a) (wget prev t)
                                       | None => []
                                       end) (row_syms m q))) (d_states m).

(* `while len(cache) <= k: i = len(cache); append(level 0 if i == 0 else from cache[i-1])` *)
Definition cnew (m : dfa) (cc : list clevel) : clevel :=
  match cc with [] => clevel0 m | _ => cnext m (last cc []) end.
Fixpoint cgrow (m : dfa) (n : nat) (cc : list clevel) : list clevel :=
  match n with 0 => cc | S n' => cgrow m n' (cc ++ [cnew m cc]) end.
Definition cpopulate (m : dfa) (k : nat) (cc : list clevel) : list clevel := cgrow m (S k - length cc) cc.

Definition wnew (m : dfa) (wc : list wlevel) : wlevel :=
  match wc with [] => wlevel0 m | _ => wnext m (last wc []) end.
Fixpoint wgrow (m : dfa) (n : nat) (wc : list wlevel) : list wlevel :=
  match n with 0 => wc | S n' => wgrow m n' (wc ++ [wnew m wc]) end.
Definition wpopulate (m : dfa) (k : nat) (wc : list wlevel) : list wlevel := wgrow m (S k - length wc) wc.

(* the levels computed from scratch *)
Fixpoint clevel_of (m : dfa) (i : nat) : clevel :=
  match i with 0 => clevel0 m | S j => cnext m (clevel_of m j) end.
Fixpoint wlevel_of (m : dfa) (i : nat) : wlevel :=
  match i with 0 => wlevel0 m | S j => wnext m (wlevel_of m j) end.

Record obj := mkobj {
  o_def : dfa;
  o_cc : list clevel;                 (* _count_cache *)
  o_wc : list wlevel;                 (* _word_cache *)
  o_min : option nat;                 (* memo of minimum_word_length *)
  o_max : option (option nat);        (* memo of maximum_word_length *)
  o_card : option N;                  (* memo of cardinality *)
  o_empty : option bool;              (* memo of isempty *)
  o_finite : option bool }.           (* memo of isfinite *)

Definition init (m : dfa) : obj := mkobj m [] [] None None None None None.

Definition set_cc (s : obj) v := mkobj (o_def s) v (o_wc s) (o_min s) (o_max s) (o_card s) (o_empty s) (o_finite s).
Definition set_wc (s : obj) v := mkobj (o_def s) (o_cc s) v (o_min s) (o_max s) (o_card s) (o_empty s) (o_finite s).
Definition set_min (s : obj) v := mkobj (o_def s) (o_cc s) (o_wc s) v (o_max s) (o_card s) (o_empty s) (o_finite s).
Definition set_max (s : obj) v := mkobj (o_def s) (o_cc s) (o_wc s) (o_min s) v (o_card s) (o_empty s) (o_finite s).
Definition set_card (s : obj) v := mkobj (o_def s) (o_cc s) (o_wc s) (o_min s) (o_max s) v (o_empty s) (o_finite s).
Definition set_empty (s : obj) v := mkobj (o_def s) (o_cc s) (o_wc s) (o_min s) (o_max s) (o_card s) v (o_finite s).
Definition set_finite (s : obj) v := mkobj (o_def s) (o_cc s) (o_wc s) (o_min s) (o_max s) (o_card s) (o_empty s) v.

(* ---- memoised queries ---- *)
Definition q_isempty (s : obj) : obj * res bool :=
  match o_empty s with
  | Some b => (s, Ok b)
  | None => match isempty (o_def s) with
            | Ok b => (set_empty s (Some b), Ok b)
            | Err e => (s, Err e)
            end
  end.

Definition q_min (s : obj) : obj * res nat :=
  match o_min s with
  | Some v => (s, Ok v)
  | None => match min_len (o_def s) with
            | Ok v => (set_min s (Some v), Ok v)
            | Err e => (s, Err e)
            end
  end.

Definition q_max (s : obj) : obj * res (option nat) :=
  match o_max s with
  | Some v => (s, Ok v)
  | None =>
    let (s1, e) := q_isempty s in
    match e with
    | Err x => (s1, Err x)
    | Ok true => (s1, Err Empty)
    | Ok false =>
      match lp_go (o_def s) (length (d_states (o_def s))) [d_init (o_def s)] 0 with
      | Ok v => (set_max s1 (Some v), Ok v)
      | Err x => (s1, Err x)
      end
    end
  end.

Definition q_isfinite (s : obj) : obj * res bool :=
  match o_finite s with
  | Some b => (s, Ok b)
  | None =>
    let (s1, r) := q_max s in
    match r with
    | Ok (Some _) => (set_finite s1 (Some true), Ok true)
    | Ok None => (set_finite s1 (Some false), Ok false)
    | Err Empty => (set_finite s1 (Some true), Ok true)
    | Err e => (s1, Err e)
    end
  end.

(* ---- cache-backed queries ---- *)
Definition q_count (s : obj) (k : nat) : obj * N :=
  let cc := cpopulate (o_def s) k (o_cc s) in
  (set_cc s cc, cget (nth k cc []) (d_init (o_def s))).

Fixpoint sum_counts (m : dfa) (js : list nat) (cc : list clevel) : list clevel * N :=
  match js with
  | [] => (cc, 0%N)
  | j :: r => let cc1 := cpopulate m j cc in
              let c := cget (nth j cc1 []) (d_init m) in
              let (cc2, t) := sum_counts m r cc1 in (cc2, (c + t)%N)
  end.

Definition q_card (s : obj) : obj * res N :=
  match o_card s with
  | Some c => (s, Ok c)
  | None =>
    let (s1, rlo) := q_min s in
    match rlo with
    | Err Empty => (set_card s1 (Some 0%N), Ok 0%N)
    | Err e => (s1, Err e)
    | Ok lo =>
      let (s2, rhi) := q_max s1 in
      match rhi with
      | Err e => (s2, Err e)
      | Ok None => (s2, Err Infinite)
      | Ok (Some h) =>
        let (cc, total) := sum_counts (o_def s2) (seq lo (S h - lo)) (o_cc s2) in
        (set_card (set_cc s2 cc) (Some total), Ok total)
      end
    end
  end.

Definition q_words (s : obj) (k : nat) : obj * list word :=
  let wc := wpopulate (o_def s) k (o_wc s) in
  (set_wc s wc, wget (nth k wc []) (d_init (o_def s))).

(* random_word reading the count cache *)
Fixpoint pick_with (c : nat -> N) (row : list (nat * nat)) (choice : N) : option (nat * nat) :=
  match row with
  | [] => None
  | (a, t) :: rest => if N.ltb choice (c t) then Some (a, t) else pick_with c rest (N.sub choice (c t))
  end.

Fixpoint rw_go_with (cf : nat -> nat -> N) (m : dfa) (rem : nat) (q : nat) (draws : list N) : res word :=
  match rem with
  | 0 => if is_final m q then Ok [] else Err (OtherErr 1)
  | S r =>
    match draws with
    | [] => Err (OtherErr 2)
    | c :: ds =>
      match pick_with (cf r) (row_of m q) c with
      | Some (a, t) => bind (rw_go_with cf m r t ds) (fun w => Ok (a :: w))
      | None => rw_go_with cf m r q ds
      end
    end
  end.

Definition q_random (s : obj) (k : nat) (draws : list N) : obj * res word :=
  let m := o_def s in
  let cc := cpopulate m k (o_cc s) in
  let cf := fun r q => cget (nth r cc []) q in
  (set_cc s cc, if N.eqb (cf k (d_init m)) 0 then Err ValueErr else rw_go_with cf m k (d_init m) draws).

(* __iter__ consumed up to n items, against the word cache *)
Fixpoint iter_c (m : dfa) (fuel k need : nat) (stop : res (list word)) (wc : list wlevel)
  : list wlevel * res (list word) :=
  match need with
  | 0 => (wc, Ok [])
  | _ =>
    match fuel with
    | 0 => (wc, stop)
    | S f =>
      let wc1 := wpopulate m k wc in
      let ws := wget (nth k wc1 []) (d_init m) in
      if Nat.leb need (length ws) then (wc1, Ok (firstn need ws))
      else let (wc2, r) := iter_c m f (S k) (need - length ws) stop wc1 in
           (wc2, bind r (fun r' => Ok (ws ++ r')))
    end
  end.

Definition q_iter (s : obj) (n : nat) : obj * res (list word) :=
  match n with
  | 0 => (s, Ok [])          (* nothing is requested: the generator body never runs *)
  | _ =>
    let (s1, e) := q_isempty s in
    match e with
    | Err x => (s1, Err x)
    | Ok true => (s1, Ok [])
    | Ok false =>
      let (s2, rlo) := q_min s1 in
      match rlo with
      | Err x => (s2, Err x)
      | Ok lo =>
        let (s3, rhi) := q_max s2 in
        match rhi with
        | Err x => (s3, Err x)
        | Ok hi =>
          let m := o_def s3 in
          let (wc, r) := match hi with
                         | Some h => iter_c m (S h - lo) lo n (Ok []) (o_wc s3)
                         | None => iter_c m (n * S (length (d_states m))) lo n (Err Fuel) (o_wc s3)
                         end in
          (set_wc s3 wc, r)
        end
      end
    end
  end.

(* ---- queries, answers, step, pure ---- *)
Inductive query :=
| QCount (k : nat) | QWords (k : nat) | QWordsPrefix (k n : nat) | QRandom (k : nat) (draws : list N)
| QCard | QMin | QMax | QIsEmpty | QIsFinite | QIter (n : nat) | QClear.

Inductive answer :=
| ANum (n : N) | AWords (l : list word) | ARWord (r : res word) | ACard (r : res N)
| AMin (r : res nat) | AMax (r : res (option nat)) | ABool (r : res bool)
| AIter (r : res (list word)) | AUnit.

Definition step (s : obj) (q : query) : obj * answer :=
  match q with
  | QCount k => let (s', c) := q_count s k in (s', ANum c)
  | QWords k => let (s', ws) := q_words s k in (s', AWords ws)
  | QWordsPrefix k n =>
    match n with
    | 0 => (s, AWords [])
    | _ => let (s', ws) := q_words s k in (s', AWords (firstn n ws))
    end
  | QRandom k ds => let (s', r) := q_random s k ds in (s', ARWord r)
  | QCard => let (s', r) := q_card s in (s', ACard r)
  | QMin => let (s', r) := q_min s in (s', AMin r)
  | QMax => let (s', r) := q_max s in (s', AMax r)
  | QIsEmpty => let (s', r) := q_isempty s in (s', ABool r)
  | QIsFinite => let (s', r) := q_isfinite s in (s', ABool r)
  | QIter n => let (s', r) := q_iter s n in (s', AIter r)
  | QClear => (set_wc (set_cc s []) [], AUnit)
  end.

Definition pure (m : dfa) (q : query) : answer :=
  match q with
  | QCount k => ANum (cnt m k (d_init m))
  | QWords k => AWords (wl m k (d_init m))
  | QWordsPrefix k n => AWords (firstn n (wl m k (d_init m)))
  | QRandom k ds => ARWord (random_word m k ds)
  | QCard => ACard (cardinality m)
  | QMin => AMin (min_len m)
  | QMax => AMax (max_len m)
  | QIsEmpty => ABool (isempty m)
  | QIsFinite => ABool (isfinite m)
  | QIter n => AIter (iter_upto m n)
  | QClear => AUnit
  end.

Definition run_history (s : obj) (qs : list query) : obj :=
  fold_left (fun s q => fst (step s q)) qs s.

(* the answers along a history *)
Fixpoint answers (s : obj) (qs : list query) : list answer :=
  match qs with
  | [] => []
  | q :: r => let (s', a) := step s q in a :: answers s' r
  end.
