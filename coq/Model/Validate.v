(* C19 - validate() of every automaton class, as the constructors run it.

   Each checker is the list of the code's checks IN THE ORDER THE CODE PERFORMS THEM, a check
   being (exception kind, condition that must hold); validate() is "the first check that
   fails raises its exception" ([first_bad]).  Tables are given in dict iteration order, so
   with several broken rules the model reports the same one as the library.

   Exception kinds (Invalid k <-> harness/enc.py exc_code = 100 + k):
     1  InvalidStateError          2  InvalidSymbolError      3  MissingStateError
     4  MissingSymbolError         5  InitialStateError       6  FinalStateError
     10 InvalidRegexError          20 NondeterminismError     21 InvalidAcceptanceModeError
     30 InvalidDirectionError      31 InconsistentTapesException

   RAW definitions: the records [dfa], [nfa] and [pda] of Spec/ can already represent every
   corruption of their class except an invalid PDA acceptance mode (carried next to the record
   as a number: 0 final_state, 1 empty_stack, 2 both, anything else invalid).  The TM records of
   Spec/TM.v have no state / symbol sets and an enumerated direction, so a raw record [rtm]
   is defined here: one shape for DTM, NTM and MNTM tables (a DTM entry is a one-symbol key
   with one result of one move; the wire decoders of Model/D19.v embed the three shapes);
   directions are numbers (0 L, 1 R, 2 N, anything else invalid). *)
From Coq Require Import List Arith Bool.
From AV Require Import Base.Util Spec.Lang Spec.FA Spec.PDA Model.PDA.
Import ListNotations.

Definition check := (nat * bool)%type.

Fixpoint first_bad (cs : list check) : res unit :=
  match cs with
  | [] => Ok tt
  | (k, b) :: r => if b then first_bad r else Err (Invalid k)
  end.

Definition osym_ok (syms : list nat) (a : option nat) : bool :=
  match a with Some x => memb x syms | None => true end.

(* ------------------------------------------------------------------ DFA (fa/dfa.py validate) *)
(* _validate_transitions(start_state, paths): missing symbols (complete DFA only), invalid
   symbols, end states *)
Definition dfa_row_checks (m : dfa) (row : list (nat * nat)) : list check :=
  [(4, d_partial m || forallb (fun a => memb a (map fst row)) (d_syms m));
   (2, forallb (fun p => memb (fst p) (d_syms m)) row);
   (1, forallb (fun p => memb (snd p) (d_states m)) row)].

Definition dfa_checks (m : dfa) : list check :=
  (3, forallb (fun q => memb q (map fst (d_trans m))) (d_states m))       (* _validate_transition_start_states *)
  :: flat_map (fun qr => dfa_row_checks m (snd qr)) (d_trans m)
  ++ [(1, memb (d_init m) (d_states m));                                  (* _validate_initial_state *)
      (1, subsetb (d_finals m) (d_states m))].                            (* _validate_final_states *)

Definition dfa_validate (m : dfa) : res unit := first_bad (dfa_checks m).

(* Python dicts / sets have no duplicate keys: the part of valid_dfa that validate() cannot break *)
Definition dfa_keys_ok (m : dfa) : bool :=
  nodupb (d_states m) && nodupb (d_syms m) && nodupb (map fst (d_trans m)) &&
  forallb (fun qr => nodupb (map fst (snd qr))) (d_trans m).

(* ------------------------------------------------------------------ NFA (fa/nfa.py validate) *)
Definition nfa_row_checks (m : nfa) (row : list (option nat * list nat)) : list check :=
  [(2, forallb (fun p => osym_ok (n_syms m) (fst p)) row);
   (1, forallb (fun p => subsetb (snd p) (n_states m)) row)].

Definition nfa_checks (m : nfa) : list check :=
  flat_map (fun qr => nfa_row_checks m (snd qr)) (n_trans m)
  ++ [(1, memb (n_init m) (n_states m));
      (3, memb (n_init m) (map fst (n_trans m)) || Nat.leb (length (n_states m)) 1);
      (1, subsetb (n_finals m) (n_states m))].

Definition nfa_validate (m : nfa) : res unit := first_bad (nfa_checks m).

Definition nfa_keys_ok (m : nfa) : bool :=
  nodupb (n_states m) && nodupb (n_syms m) && nodupb (map fst (n_trans m)).

(* ------------------------------------------------------------------ GNFA (fa/gnfa.py validate), structural level *)
(* a label is None (Python None) or Some b where b says whether the string passes
   "characters within input symbols + meta characters, and regex.validate" - the regex
   validator itself belongs to C11 *)
Record gnfa := mkgnfa {
  g_states : list nat;
  g_trans : list (nat * list (nat * option bool));
  g_init : nat; g_final : nat }.

Definition label_ok (l : option bool) : bool :=
  match l with Some false => false | _ => true end.

Definition gnfa_row_checks (m : gnfa) (q : nat) (row : list (nat * option bool)) : list check :=
  (10, forallb (fun p => label_ok (snd p)) row)
  :: (if Nat.eqb q (g_final m)
      then (1, match row with [] => true | _ => false end)
      else (3, forallb (fun s => Nat.eqb s (g_init m) || memb s (map fst row)) (g_states m)))
  :: [(1, forallb (fun p => memb (fst p) (g_states m)) row)].

Definition gnfa_checks (m : gnfa) : list check :=
  [(1, memb (g_init m) (g_states m)); (1, memb (g_final m) (g_states m))]
  ++ flat_map (fun qr => gnfa_row_checks m (fst qr) (snd qr)) (g_trans m)
  ++ [(3, memb (g_init m) (map fst (g_trans m)) || Nat.leb (length (g_states m)) 1)].

Definition gnfa_validate (m : gnfa) : res unit := first_bad (gnfa_checks m).

(* ------------------------------------------------------------------ PDA (pda/pda.py validate; npda.py, dpda.py rows) *)
Definition npda_row_checks (m : pda) (row : prow) : list check :=
  flat_map (fun ar =>
    (2, osym_ok (p_syms m) (fst ar))
    :: map (fun Z => (2, memb Z (p_stack_syms m))) (map fst (snd ar))) row.

(* DPDA: per stack key first the sibling scan for a lambda / symbol clash, then the stack symbol *)
Definition dpda_row_checks (m : pda) (row : prow) : list check :=
  flat_map (fun ar =>
    (2, osym_ok (p_syms m) (fst ar))
    :: flat_map (fun Z => [(20, det_isolated_ok row (fst ar)); (2, memb Z (p_stack_syms m))])
                (map fst (snd ar))) row.

Definition pda_tail_checks (m : pda) (mode : nat) : list check :=
  [(1, memb (p_init m) (p_states m));
   (2, memb (p_init_stack m) (p_stack_syms m));
   (1, subsetb (p_finals m) (p_states m));
   (21, Nat.leb mode 2)].

Definition npda_checks (m : pda) (mode : nat) : list check :=
  flat_map (fun qr => npda_row_checks m (snd qr)) (p_trans m) ++ pda_tail_checks m mode.
Definition dpda_checks (m : pda) (mode : nat) : list check :=
  flat_map (fun qr => dpda_row_checks m (snd qr)) (p_trans m) ++ pda_tail_checks m mode.

Definition npda_validate (m : pda) (mode : nat) : res unit := first_bad (npda_checks m mode).
Definition dpda_validate_raw (m : pda) (mode : nat) : res unit := first_bad (dpda_checks m mode).

(* ------------------------------------------------------------------ Turing machines (tm/tm.py, dtm.py, ntm.py, mntm.py) *)
Definition tmove := (nat * nat)%type.              (* symbol written, direction code *)
Definition tresult := (nat * list tmove)%type.     (* next state, one move per tape *)
Definition trow := list (list nat * list tresult). (* read symbols (one per tape) -> results *)

Record rtm := mkrtm {
  t_states : list nat; t_insyms : list nat; t_tapesyms : list nat;
  t_trans : list (nat * trow);
  t_init : nat; t_blank : nat; t_finals : list nat }.

(* _validate_transition_result on (state, symbol, direction), once per move *)
Definition tm_result_checks (m : rtm) (r : tresult) : list check :=
  flat_map (fun mv => [(1, memb (fst r) (t_states m));
                       (2, memb (fst mv) (t_tapesyms m));
                       (30, Nat.leb (snd mv) 2)]) (snd r).

(* _validate_transitions, one row: the row's state, all read symbols, then all results *)
Definition tm_row_checks (m : rtm) (q : nat) (row : trow) : list check :=
  (1, memb q (t_states m))
  :: map (fun s => (2, memb s (t_tapesyms m))) (concat (map fst row))
  ++ flat_map (fun kr => flat_map (tm_result_checks m) (snd kr)) row.

Definition tm_checks (m : rtm) : list check :=
  [(4, subsetb (t_insyms m) (t_tapesyms m) && negb (subsetb (t_tapesyms m) (t_insyms m)));  (* input < tape, strictly *)
   (2, memb (t_blank m) (t_tapesyms m))]
  ++ flat_map (fun qr => tm_row_checks m (fst qr) (snd qr)) (t_trans m)
  ++ [(1, memb (t_init m) (t_states m));
      (3, memb (t_init m) (map fst (t_trans m)) || Nat.leb (length (t_states m)) 1);
      (5, negb (memb (t_init m) (t_finals m)));
      (1, subsetb (t_finals m) (t_states m));
      (6, forallb (fun f => negb (memb f (map fst (t_trans m)))) (t_finals m))].

(* DTM.validate and NTM.validate are the same sequence of checks *)
Definition tm_validate (m : rtm) : res unit := first_bad (tm_checks m).
Definition dtm_validate := tm_validate.
Definition ntm_validate := tm_validate.

(* _validate_tapes_consistency, after everything else *)
Definition tapes_consistent (n : nat) (m : rtm) : bool :=
  forallb (fun qr => forallb (fun kr => Nat.eqb (length (fst kr)) n &&
                                        forallb (fun r => Nat.eqb (length (snd r)) n) (snd kr)) (snd qr))
          (t_trans m).

Definition mntm_checks (n : nat) (m : rtm) : list check := tm_checks m ++ [(31, tapes_consistent n m)].
Definition mntm_validate (n : nat) (m : rtm) : res unit := first_bad (mntm_checks n m).

(* ------------------------------------------------------------------ the constructor and the validation flag *)
(* Automaton.__post_init__: validate() runs only when should_validate_automata is set; the definition is
   stored either way (freezing changes container kinds only, which the records do not distinguish) *)
Definition ctor {D} (validate : D -> res unit) (should_validate : bool) (m : D) : res D :=
  if should_validate then bind (validate m) (fun _ => Ok m) else Ok m.
