(* C05 - DFA minimisation (DFA.minify / DFA._minify / DFA.to_partial).
   Specification model (DESIGN 3.1, kind S) for the refinement itself: the coarsest
   finality-respecting congruence is computed by Moore-style signature refinement, not by
   Hopcroft's splitter schedule (the partition reached is unique).  State selection, the
   implicit trap, the omitted trap class, the empty_language fall-back, the partial flag
   and the retained names follow the Python code.  No proofs here. *)
From Coq Require Import List Arith Bool.
From AV Require Import Base.Util Base.Closure Spec.Lang Spec.FA Model.Decide.
Import ListNotations.

(* ---- small generic list helpers over a carrier with a boolean equality ---- *)
Section Gen.
  Context {A : Type}.
  Variable e : A -> A -> bool.

  Definition gmem (x : A) (l : list A) : bool := existsb (e x) l.

  Fixpoint dedup (l : list A) : list A :=
    match l with
    | [] => []
    | x :: r => let d := dedup r in if gmem x d then d else x :: d
    end.

  (* position of the first occurrence; length l when absent *)
  Fixpoint idx (x : A) (l : list A) : nat :=
    match l with
    | [] => 0
    | y :: r => if e x y then 0 else S (idx x r)
    end.
End Gen.

(* ---- Moore refinement on an abstract deterministic system ---- *)
Section Moore.
  Variable X : Type.
  Variable eqbX : X -> X -> bool.
  Variable step : X -> nat -> X.
  Variable fin : X -> bool.
  Variable syms : list nat.
  Variable Q : list X.            (* the state list, closed under step on syms *)

  Definition table := list (X * nat).

  Fixpoint look (t : table) (x : X) : nat :=
    match t with
    | [] => 0
    | (y, c) :: r => if eqbX x y then c else look r x
    end.

  Definition tab (g : X -> nat) : table := map (fun x => (x, g x)) Q.

  (* signature of a state under a class function: own class, then the class of every successor *)
  Definition sig (c : X -> nat) (x : X) : list nat := c x :: map (fun a => c (step x a)) syms.

  Definition leqb := eqb_list Nat.eqb.

  (* one round: new class = index of the signature among the distinct signatures *)
  Definition round (t : table) : table :=
    let c := look t in
    let ds := dedup leqb (map (sig c) Q) in
    tab (fun x => idx leqb (sig c x) ds).

  Definition ncls (t : table) : nat := length (dedup Nat.eqb (map snd t)).

  Definition tab0 : table := tab (fun x => if fin x then 1 else 0).

  (* iterate until a round splits no class *)
  Fixpoint refine (fuel : nat) (t : table) : option table :=
    match fuel with
    | 0 => None
    | S f => let t' := round t in
             if Nat.eqb (ncls t') (ncls t) then Some t else refine f t'
    end.

  Definition moore : option table := refine (S (length Q)) tab0.
End Moore.

Arguments look {X} eqbX t x.
Arguments tab {X} Q g.
Arguments sig {X} step syms c x.
Arguments round {X} eqbX step syms Q t.
Arguments ncls {X} t.
Arguments tab0 {X} fin Q.
Arguments refine {X} eqbX step syms Q fuel t.
Arguments moore {X} eqbX step fin syms Q.

(* ---- state selection, as the code does it ---- *)
Definition succs (m : dfa) (q : nat) : list nat :=
  match d_row m q with Some row => map snd row | None => [] end.

(* sources of the edges into q in DFA._get_digraph *)
Definition preds (m : dfa) (q : nat) : list nat :=
  map fst (filter (fun r => memb q (map snd (snd r))) (d_trans m)).

Definition reach_states (m : dfa) : res (list nat) :=
  ores (closure Nat.eqb (succs m) (S (length (d_states m))) [d_init m]).

Definition coacc_states (m : dfa) : res (list nat) :=
  ores (closure Nat.eqb (preds m) (S (length (d_trans m))) (d_finals m)).

(* partial input and to_partial: (reachable & co-accessible) + initial state *)
Definition kept_live (m : dfa) : res (list nat) :=
  bind (reach_states m) (fun R =>
  bind (coacc_states m) (fun C =>
  Ok (set_of (d_init m :: filter (fun q => memb q C) R)))).

(* minify(): partial input -> as above; complete input -> the reachable states *)
Definition kept_minify (m : dfa) : res (list nat) :=
  if d_partial m then kept_live m
  else bind (reach_states m) (fun R => Ok (set_of R)).

(* ---- the system that is refined: kept states plus the implicit trap (None) ----
   A missing transition and a transition into a state outside the kept set both lead to
   the trap (the behaviour of _minify after the repair). *)
Definition kstep (m : dfa) (K : list nat) (x : option nat) (a : nat) : option nat :=
  match x with
  | Some q => match d_delta m q a with
              | Some t => if memb t K then Some t else None
              | None => None
              end
  | None => None
  end.

Definition is_none {A} (o : option A) : bool := match o with None => true | Some _ => false end.

(* _minify creates the trap state only when some kept state needs it *)
Definition trap_needed (m : dfa) (K : list nat) : bool :=
  existsb (fun q => existsb (fun a => is_none (kstep m K (Some q) a)) (d_syms m)) K.

Definition empty_language (syms : list nat) : dfa :=
  mkdfa [0] syms [(0, map (fun a => (a, 0)) syms)] 0 [] false.

Definition kQ (K : list nat) : list (option nat) := map Some K ++ [None].

(* everything _minify derives from the final partition, given the class function c *)
Section Quotient.
  Variable m : dfa.
  Variable K : list nat.
  Variable c : option nat -> nat.

  Definition dropped (x : option nat) : bool := trap_needed m K && Nat.eqb (c x) (c None).

  (* canonical name of a kept state: the least kept state of its class *)
  Definition cname (q : nat) : nat :=
    match find (fun r => Nat.eqb (c (Some r)) (c (Some q))) K with Some r => r | None => q end.

  Definition live : list nat := filter (fun q => negb (dropped (Some q))) K.
  Definition qstates : list nat := filter (fun q => Nat.eqb (cname q) q) live.

  (* target of class representative r on a: none when it leads into the omitted trap class *)
  Definition qtarget (r a : nat) : option nat :=
    match kstep m K (Some r) a with
    | Some t => if dropped (Some t) then None else Some (cname t)
    | None => None
    end.

  Definition qrow (r : nat) : list (nat * nat) :=
    flat_map (fun a => match qtarget r a with Some v => [(a, v)] | None => [] end) (d_syms m).

  Definition qtrans : list (nat * list (nat * nat)) := map (fun r => (r, qrow r)) qstates.

  Definition qfinals : list nat :=
    set_of (map cname (filter (fun q => memb q (d_finals m)) K)).

  Definition qpartial : bool :=
    negb (forallb (fun r => Nat.eqb (length (qrow r)) (length (d_syms m))) qstates).

  (* retain_names=True: the classes themselves *)
  Definition qblocks : list (list nat) :=
    map (fun r => filter (fun q => Nat.eqb (cname q) r) live) qstates.

  Definition quotient : res (dfa * list (list nat)) :=
    match qstates with
    | [] => Ok (empty_language (d_syms m), [])
    | _ :: _ =>
      if dropped (Some (d_init m)) then Err KeyErr     (* back_map[initial_state] *)
      else Ok (mkdfa qstates (d_syms m) qtrans (cname (d_init m)) qfinals qpartial, qblocks)
    end.
End Quotient.

Definition kmoore (m : dfa) (K : list nat) : option (table (option nat)) :=
  moore (eqb_opt Nat.eqb) (kstep m K) (ofinal m) (d_syms m) (kQ K).

Definition minify_core (m : dfa) (K : list nat) : res (dfa * list (list nat)) :=
  match kmoore m K with
  | None => Err Fuel
  | Some t => quotient m K (look (eqb_opt Nat.eqb) t)
  end.

(* DFA.minify: result and the partition (blocks of original state names) *)
Definition minify_full (m : dfa) : res (dfa * list (list nat)) :=
  bind (kept_minify m) (minify_core m).
Definition minify (m : dfa) : res dfa := bind (minify_full m) (fun p => Ok (fst p)).

(* DFA.to_partial(minify=True) *)
Definition to_partial_min_full (m : dfa) : res (dfa * list (list nat)) :=
  bind (kept_live m) (minify_core m).
Definition to_partial_min (m : dfa) : res dfa := bind (to_partial_min_full m) (fun p => Ok (fst p)).

(* DFA.to_partial(minify=False) *)
Definition to_partial_plain (m : dfa) : res dfa :=
  bind (reach_states m) (fun R =>
  bind (coacc_states m) (fun C =>
  let K := set_of (d_init m :: filter (fun q => memb q C) R) in
  Ok (mkdfa K (d_syms m)
        (map (fun r => (fst r, filter (fun p => memb (snd p) C) (snd r)))
             (filter (fun r => memb (fst r) K) (d_trans m)))
        (d_init m) (filter (fun q => memb q K) (d_finals m)) true))).

(* every state is the initial state or reachable and co-accessible *)
Definition is_trim (m : dfa) : bool :=
  match kept_live m with
  | Ok K => subsetb (d_states m) K
  | Err _ => false
  end.
