(* C01: executable models of DFA/NFA reading, decision by decision as in
   automata/fa/dfa.py (_get_next_current_state, read_input_stepwise,
   _check_for_input_rejection) and automata/fa/nfa.py (_get_lambda_closures,
   _get_next_current_states, read_input_stepwise). *)
From Coq Require Import List Arith Bool.
From AV Require Import Base.Util Base.Closure Spec.Lang Spec.FA.
Import ListNotations.

Fixpoint mapM {A B} (f : A -> res B) (l : list A) : res (list B) :=
  match l with
  | [] => Ok []
  | x :: r => bind (f x) (fun y => bind (mapM f r) (fun ys => Ok (y :: ys)))
  end.

(* ---------- DFA ---------- *)
(* `current_state is not None and input_symbol in self.transitions[current_state]` *)
Definition dfa_step (m : dfa) (cur : option nat) (a : nat) : res (option nat) :=
  match cur with
  | None => Ok None
  | Some q => match d_row m q with
              | None => Err KeyErr
              | Some row => Ok (assoc a row)
              end
  end.

(* configurations yielded after the initial one, and the configuration reached *)
Fixpoint dfa_steps (m : dfa) (cur : option nat) (w : word) : list (option nat) * res (option nat) :=
  match w with
  | [] => ([], Ok cur)
  | a :: r => match dfa_step m cur a with
              | Err e => ([], Err e)
              | Ok c' => let (ys, o) := dfa_steps m c' r in (c' :: ys, o)
              end
  end.

Definition dfa_check (m : dfa) (o : res (option nat)) : res (option nat) :=
  bind o (fun c => if ofinal m c then Ok c else Err Reject).

(* read_input_stepwise: everything yielded, then how the generator ends *)
Definition dfa_stepwise (m : dfa) (w : word) : list (option nat) * res (option nat) :=
  let (ys, o) := dfa_steps m (Some (d_init m)) w in
  (Some (d_init m) :: ys, dfa_check m o).

Definition dfa_read_input (m : dfa) (w : word) : res (option nat) := snd (dfa_stepwise m w).

(* accepts_input: True / False, any other exception propagates *)
Definition accepts_of {A} (r : res A) : res bool :=
  match r with Ok _ => Ok true | Err Reject => Ok false | Err e => Err e end.
Definition dfa_accepts (m : dfa) (w : word) : res bool := accepts_of (dfa_read_input m w).

(* ---------- NFA ---------- *)
Definition eps_succ (m : nfa) (q : nat) : list nat := n_targets m q None.

Definition eclosure (m : nfa) (q : nat) : res (list nat) :=
  match closure Nat.eqb (eps_succ m) (S (length (n_states m))) [q] with
  | Some c => Ok (set_of c)
  | None => Err Fuel
  end.

(* the cached per-state map, one entry per member of `states` *)
Definition nfa_closures (m : nfa) : res (list (nat * list nat)) :=
  mapM (fun q => bind (eclosure m q) (fun c => Ok (q, c))) (n_states m).

Definition cl_lookup (cl : list (nat * list nat)) (q : nat) : res (list nat) :=
  match assoc q cl with Some c => Ok c | None => Err KeyErr end.

(* _get_next_current_states *)
Definition nfa_next (m : nfa) (cl : list (nat * list nat)) (S : list nat) (a : nat) : res (list nat) :=
  fold_right (fun q acc =>
    bind acc (fun s =>
      fold_right (fun t acc' => bind acc' (fun s' => bind (cl_lookup cl t) (fun c => Ok (set_union c s'))))
                 (Ok s) (n_targets m q (Some a))))
    (Ok []) S.

Fixpoint nfa_steps (m : nfa) cl (cur : list nat) (w : word) : list (list nat) * res (list nat) :=
  match w with
  | [] => ([], Ok cur)
  | a :: r => match nfa_next m cl cur a with
              | Err e => ([], Err e)
              | Ok c' => let (ys, o) := nfa_steps m cl c' r in (c' :: ys, o)
              end
  end.

Definition disjointb (a b : list nat) : bool := negb (existsb (fun x => memb x b) a).

Definition nfa_check (m : nfa) (o : res (list nat)) : res (list nat) :=
  bind o (fun c => if disjointb c (n_finals m) then Err Reject else Ok c).

Definition nfa_stepwise (m : nfa) (w : word) : list (list nat) * res (list nat) :=
  match nfa_closures m with
  | Err e => ([], Err e)
  | Ok cl => match cl_lookup cl (n_init m) with
             | Err e => ([], Err e)
             | Ok c0 => let (ys, o) := nfa_steps m cl c0 w in (c0 :: ys, nfa_check m o)
             end
  end.

Definition nfa_read_input (m : nfa) (w : word) : res (list nat) := snd (nfa_stepwise m w).
Definition nfa_accepts (m : nfa) (w : word) : res bool := accepts_of (nfa_read_input m w).
