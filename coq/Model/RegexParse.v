(* automata/regex/postfix.py (validate_tokens, tokens_to_postfix, parse_postfix_tokens) and
   parser.py add_concat_and_empty_string_tokens / parse_regex, producing an AST. *)
From Coq Require Import List Arith Bool.
From AV Require Import Base.Util Spec.Regex Model.RegexLex.
Import ListNotations.

Inductive tclass := KInfix | KPostfix | KLit | KLParen | KRParen.

Definition tclass_of (t : token) : tclass :=
  match t with
  | TSym _ | TAny | TEmpty => KLit
  | TUnion | TInter | TShuffle | TConcat => KInfix
  | TStar | TPlus | TOpt | TQuant _ _ => KPostfix
  | TLParen => KLParen
  | TRParen => KRParen
  end.

Definition is_op (k : tclass) : bool := match k with KInfix | KPostfix => true | _ => false end.

Definition regex_err {A} : res A := Err (Invalid 10).   (* InvalidRegexError *)

(* one iteration of the loop of validate_tokens over (prev_token, curr_token);
   the state is the parenthesis counter *)
Definition vstep (prev curr : option token) (cnt : nat) : res nat :=
  match prev with
  | None =>
    match curr with
    | Some t => if is_op (tclass_of t) then regex_err else Ok cnt
    | None => Ok cnt
    end
  | Some p =>
    match tclass_of p with
    | KInfix =>
      match curr with
      | None => regex_err
      | Some t => match tclass_of t with
                  | KInfix | KPostfix | KRParen => regex_err
                  | _ => Ok cnt
                  end
      end
    | KLParen =>
      match curr with
      | Some t => if is_op (tclass_of t) then regex_err else Ok (S cnt)
      | None => Ok (S cnt)
      end
    | KRParen => match cnt with 0 => regex_err | S c => Ok c end
    | _ => Ok cnt
    end
  end.

Fixpoint vscan (prev : option token) (ts : list token) (cnt : nat) : res unit :=
  match ts with
  | [] => bind (vstep prev None cnt) (fun c => match c with 0 => Ok tt | S _ => regex_err end)
  | t :: r => bind (vstep prev (Some t) cnt) (fun c => vscan (Some t) r c)
  end.

Definition validate_tokens (ts : list token) : res unit := vscan None ts 0.

(* ---- add_concat_and_empty_string_tokens ---- *)
Definition needs_concat (a b : tclass) : bool :=
  match a, b with
  | KLit, KLit | KRParen, KLParen | KRParen, KLit | KLit, KLParen
  | KPostfix, KLit | KPostfix, KLParen => true
  | _, _ => false
  end.

Definition needs_empty (a b : tclass) : bool :=
  match a, b with KLParen, KRParen => true | _, _ => false end.

Definition between (a b : token) : list token :=
  (if needs_concat (tclass_of a) (tclass_of b) then [TConcat] else []) ++
  (if needs_empty (tclass_of a) (tclass_of b) then [TEmpty] else []).

Fixpoint add_concat (ts : list token) : list token :=
  match ts with
  | [] => []
  | a :: r => match r with
              | [] => [a]
              | b :: _ => a :: between a b ++ add_concat r
              end
  end.

(* ---- tokens_to_postfix: shunting-yard; stack head = top; out is reversed ---- *)
Definition prec (t : token) : nat :=
  match t with
  | TUnion | TInter | TShuffle => 1
  | TConcat => 2
  | TStar | TPlus | TOpt | TQuant _ _ => 3
  | _ => 0
  end.

Definition is_lparen (t : token) : bool := match t with TLParen => true | _ => false end.

(* while len(stack) > 0 and not isinstance(stack[-1], LeftParen): res.append(stack.pop()) *)
Fixpoint pop_until_lp (stack out : list token) : list token * list token :=
  match stack with
  | [] => ([], out)
  | t :: s => if is_lparen t then (stack, out) else pop_until_lp s (t :: out)
  end.

(* while stack and top is not LeftParen and prec c <= prec top: res.append(stack.pop())
   (the code's first `elif` is the zero-iteration case of this loop) *)
Fixpoint pop_ops (c : token) (stack out : list token) : list token * list token :=
  match stack with
  | [] => ([], out)
  | t :: s => if is_lparen t then (stack, out)
              else if Nat.leb (prec c) (prec t) then pop_ops c s (t :: out)
              else (stack, out)
  end.

Fixpoint sy (ts stack out : list token) : res (list token) :=
  match ts with
  | [] => Ok (rev out ++ stack)
  | c :: r =>
    match tclass_of c with
    | KLit => sy r stack (c :: out)
    | KRParen =>
      let (st, out') := pop_until_lp stack out in
      match st with
      | [] => Err IndexErr                  (* stack.pop() on an empty deque *)
      | _ :: st' => sy r st' out'
      end
    | KLParen => sy r (c :: stack) out
    | _ => let (st, out') := pop_ops c stack out in sy r (c :: st) out'
    end
  end.

Definition to_postfix (ts : list token) : res (list token) := sy ts [] [].

(* ---- parse_postfix_tokens, the builder operations replaced by AST constructors ---- *)
Definition infix_node (t : token) (l r : re) : re :=
  match t with
  | TUnion => RUnion l r | TInter => RInter l r | TShuffle => RShuffle l r
  | _ => RCat l r
  end.

Definition postfix_node (t : token) (x : re) : re :=
  match t with
  | TStar => RStar x | TPlus => RPlus x | TOpt => ROpt x
  | TQuant lo hi => RRep x lo hi
  | _ => x
  end.

Definition lit_node (t : token) : re :=
  match t with TSym a => RSym a | TAny => RAny | _ => REps end.

Fixpoint ev (ts : list token) (stack : list re) : res re :=
  match ts with
  | [] => match rev stack with x :: _ => Ok x | [] => Err IndexErr end   (* stack[0] *)
  | t :: r =>
    match tclass_of t with
    | KInfix => match stack with
                | y :: x :: s => ev r (infix_node t x y :: s)     (* right = pop, left = pop *)
                | _ => Err IndexErr
                end
    | KPostfix => match stack with
                  | x :: s => ev r (postfix_node t x :: s)
                  | [] => Err IndexErr
                  end
    | KLit => ev r (lit_node t :: stack)
    | _ => regex_err
    end
  end.

Definition eval_postfix (ts : list token) : res re := ev ts [].

(* validate_tokens ; add_concat ; tokens_to_postfix ; parse_postfix_tokens *)
Definition parse_tokens (ts : list token) : res re :=
  bind (validate_tokens ts) (fun _ =>
  bind (to_postfix (add_concat ts)) eval_postfix).

(* parse_regex after the repair: an empty token list is the empty-string literal *)
Definition parse (cs : list nat) : res re :=
  match cs with
  | [] => Ok REps
  | _ => bind (lex cs) (fun ts => match ts with [] => Ok REps | _ => parse_tokens ts end)
  end.

(* regex.validate *)
Definition validate (cs : list nat) : res unit := bind (lex cs) validate_tokens.
