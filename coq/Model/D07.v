(* C07 and C09 dispatch *)
From Coq Require Import List Arith NArith Bool.
From AV Require Import Base.Util Base.ITree Spec.Lang Spec.FA Model.Codec Model.Decide Model.Product
     Model.Build Model.Subset Model.Minimize Model.HK.
Import ListNotations.

Definition enc_diff' (r : res (option word)) : itree := enc_res (enc_opt enc_nats) r.

(* Hopcroft-Karp pair states (subset state, operand index) on the wire: [index, sorted states] *)
Definition enc_nel (e : list nat + list nat) : itree :=
  match e with inl q => L [I 0%N; enc_nats q] | inr q => L [I 1%N; enc_nats q] end.
Definition dec_nel (t : itree) : option (list nat + list nat) :=
  match t with
  | L [I i; q] =>
    match dec_nats q with
    | Some o => if N.eqb i 0 then Some (inl o) else if N.eqb i 1 then Some (inr o) else None
    | None => None
    end
  | _ => None
  end.

Definition d07 (op : nat) (t : itree) : itree :=
  match op, t with
  | 1, L [tn; ti] =>   (* DFA.from_nfa: [valid_impl, size_impl, diff(source, impl), model: res [size, diff(impl, model)]] *)
    match dec_nfa tn, dec_dfa ti with
    | Some n, Some impl =>
      L [Ib (valid_dfa impl); In_ (size impl); enc_diff' (nfa_dfa_diff n impl);
         enc_res (fun m => L [In_ (size m); enc_diff' (dfa_diff impl m); Ib (valid_dfa m);
                              enc_res (fun r => L [In_ (size r); Ib (d_partial r)]) (to_partial_min m)]) (determinize_m n)]
    | _, _ => bad_input
    end
  | 2, L [td; ti] =>   (* NFA.from_dfa *)
    match dec_dfa td, dec_nfa ti with
    | Some d, Some impl =>
      L [Ib (valid_nfa impl); enc_diff' (nfa_dfa_diff impl d); enc_diff' (nfa_diff impl (from_dfa_m d))]
    | _, _ => bad_input
    end
  | 3, L [tn; ti] =>   (* eliminate_lambda *)
    match dec_nfa tn, dec_nfa ti with
    | Some n, Some impl =>
      L [Ib (valid_nfa impl); enc_diff' (nfa_diff impl n); Ib (has_eps_key impl); enc_res Ib (all_reachable impl)]
    | _, _ => bad_input
    end
  | 4, tn =>           (* subset states in discovery order *)
    match dec_nfa tn with
    | Some n => enc_res (enc_list enc_nats) (determinize_states n)
    | None => bad_input
    end
  | 5, L [ta; tb] =>   (* C09: NFA equality *)
    match dec_nfa ta, dec_nfa tb with
    | Some a, Some b => L [enc_res Ib (nfa_eq_m a b); enc_res Ib (nfa_ne_m a b); enc_res Ib (nfa_eq_m b a);
                           enc_diff' (nfa_diff a b)]
    | _, _ => bad_input
    end
  | 6, L [ta; tb] =>   (* C09: NFA.__eq__ as coded (Hopcroft-Karp mirror model, Model/HK.v), two schedules, both orders *)
    match dec_nfa ta, dec_nfa tb with
    | Some a, Some b =>
      L [enc_res Ib (nfa_hk_eq a b); enc_res Ib (nfa_hk_eq_gen (fun _ _ => false) (rev (n_syms a)) a b);
         enc_res Ib (nfa_hk_eq b a)]
    | _, _ => bad_input
    end
  | 7, L [ta; tb; ts; tbl_t] =>   (* C09: NFA.__eq__ under a given schedule -> [answer, the sequence of union calls] *)
    match dec_nfa ta, dec_nfa tb, dec_nats ts, dec_list (dec_pair dec_nel dec_nel) tbl_t with
    | Some a, Some b, Some syms, Some tbl =>
      let r := nfa_hk_eq_log (tie_of_table (eqb_list Nat.eqb) (eqb_list Nat.eqb) tbl) syms a b in
      L [enc_res Ib (fst r); enc_list (enc_pair enc_nel enc_nel) (snd r)]
    | _, _, _, _ => bad_input
    end
  | _, _ => bad_input
  end.
