(* C08: executable models of the NFA regular operations of automata/fa/nfa.py
   (union, concatenate, kleene_star, option, reverse, intersection,
   shuffle_product, right_quotient, left_quotient, _eliminate_lambda).

   Shape shared by all operations: the code builds a set of new states (ints,
   pairs or triples), one transition row per new state (or no row), an initial
   state and final states, and hands them to the constructor, which validates.
   The model builds exactly these parts over a carrier X (nat, nat*nat,
   nat*nat*bool), then [assemble] numbers the carrier into nat and [check_nfa]
   is the constructor's validation.  Rows are written in comprehension form
   [tab keys F] = { a : F a  for a in keys }: the keys are those the code's
   loops create, the target sets those they accumulate.  No proofs here. *)
From Coq Require Import List Arith Bool.
From AV Require Import Base.Util Base.Closure Spec.Lang Spec.FA Model.FARun Model.Decide.
Import ListNotations.

Definition row := list (option nat * list nat).
Definition tr_row (t : list (nat * row)) (q : nat) : row :=
  match assoc q t with Some r => r | None => [] end.

(* rows over an arbitrary carrier *)
Definition xrow (X : Type) := list (option nat * list X).
Definition xtg {X} (r : xrow X) (a : option nat) : list X :=
  match oassoc a r with Some l => l | None => [] end.
Definition has_key {X} (r : xrow X) (a : option nat) : bool :=
  match oassoc a r with Some _ => true | None => false end.
Definition xrow_map {X Y} (f : X -> Y) (r : xrow X) : xrow Y :=
  map (fun p => (fst p, map f (snd p))) r.
Definition tab {X} (keys : list (option nat)) (F : option nat -> list X) : xrow X :=
  map (fun a => (a, F a)) keys.
Definition row_targets {X} (r : xrow X) : list X := flat_map snd r.
Definition opt_row {X} (r : xrow X) : option (xrow X) :=
  match r with [] => None | _ => Some r end.
Definition is_some {A} (o : option A) : bool := match o with Some _ => true | None => false end.
Definition nonempty {A} (l : list A) : bool := match l with [] => false | _ => true end.

(* first-occurrence index: the counter value zip() pairs with a state *)
Fixpoint gidx {X} (eqb : X -> X -> bool) (x : X) (l : list X) : nat :=
  match l with
  | [] => 0
  | y :: r => if eqb x y then 0 else S (gidx eqb x r)
  end.

Definition eqb_pp := eqb_pair Nat.eqb Nat.eqb.
Definition eqb_ppb := eqb_pair eqb_pp Bool.eqb.
Definition pidx := gidx eqb_pp.
Definition tidx := gidx eqb_ppb.

(* FA._add_new_state: least natural number not in the set *)
Fixpoint fresh_from (fuel : nat) (l : list nat) (k : nat) : nat :=
  match fuel with
  | 0 => k
  | S f => if memb k l then fresh_from f l (S k) else k
  end.
Definition fresh (l : list nat) : nat := fresh_from (S (length l)) l 0.

(* ---- the constructor's validate(): first failing rule ---- *)
Definition osym_ok (syms : list nat) (a : option nat) : bool :=
  match a with Some s => memb s syms | None => true end.

Definition broken_rule (m : nfa) : nat :=
  if negb (forallb (fun r => forallb (fun p => osym_ok (n_syms m) (fst p)) (snd r)) (n_trans m)) then 2
  else if negb (forallb (fun r => forallb (fun p => subsetb (snd p) (n_states m)) (snd r)) (n_trans m)) then 1
  else if negb (memb (n_init m) (n_states m)) then 1
  else if negb (memb (n_init m) (map fst (n_trans m)) || Nat.leb (length (n_states m)) 1) then 3
  else if negb (subsetb (n_finals m) (n_states m)) then 1
  else 9.

Definition check_nfa (m : nfa) : res nfa :=
  if valid_nfa m then Ok m else Err (Invalid (broken_rule m)).

(* ---- numbering a carrier into nat ---- *)
Definition assemble {X} (enc : X -> nat) (xs : list X) (syms : list nat)
           (rowof : X -> option (xrow X)) (x0 : X) (fin : list X) : nfa :=
  mknfa (map enc xs) syms
        (flat_map (fun x => match rowof x with
                            | Some r => [(enc x, xrow_map enc r)]
                            | None => []
                            end) xs)
        (enc x0) (map enc fin).

(* every state_map[...] lookup of union/concatenate succeeds.  _load_new_transition_dict
   skips rows keyed by a name that is not a state; for the other rows every target
   must be a state, and so must the initial and the final states *)
Definition lookups_ok (A : nfa) : bool :=
  forallb (fun r => negb (memb (fst r) (n_states A))
                    || forallb (fun p => subsetb (snd p) (n_states A)) (snd r)) (n_trans A)
  && memb (n_init A) (n_states A) && subsetb (n_finals A) (n_states A).

Definition usyms (A B : nfa) : list nat := set_of (n_syms A ++ n_syms B).
Definition arow (A : nfa) (q : nat) : row := tr_row (n_trans A) q.

(* ---- union: new state 0, then A's states 1.., then B's states; rows are built for
   states only, so a transition row keyed by a non-state is skipped ---- *)
Definition union_xs (A B : nfa) : list (nat * nat) :=
  (0, 0) :: map (pair 1) (n_states A) ++ map (pair 2) (n_states B).
Definition union_rowof (A B : nfa) (x : nat * nat) : option (xrow (nat * nat)) :=
  match fst x with
  | 0 => Some [(None, [(1, n_init A); (2, n_init B)])]
  | 1 => Some (xrow_map (pair 1) (arow A (snd x)))
  | _ => Some (xrow_map (pair 2) (arow B (snd x)))
  end.
Definition union_fin (A B : nfa) := map (pair 1) (n_finals A) ++ map (pair 2) (n_finals B).
Definition union_pre (A B : nfa) : nfa :=
  let xs := union_xs A B in
  assemble (fun x => pidx x xs) xs (usyms A B) (union_rowof A B) (0, 0) (union_fin A B).
Definition nfa_union (A B : nfa) : res nfa :=
  if lookups_ok A && lookups_ok B then check_nfa (union_pre A B) else Err KeyErr.

(* ---- concatenation: A's states 0.., then B's; final states of A get an
   empty-string edge to B's initial state ---- *)
Definition concat_xs (A B : nfa) : list (nat * nat) :=
  map (pair 1) (n_states A) ++ map (pair 2) (n_states B).
Definition concat_rowof (A B : nfa) (x : nat * nat) : option (xrow (nat * nat)) :=
  match fst x with
  | 0 => None
  | 1 => let r := arow A (snd x) in
         Some (if memb (snd x) (n_finals A)
               then tab (map fst r ++ [None])
                        (fun a => map (pair 1) (xtg r a) ++ match a with None => [(2, n_init B)] | Some _ => [] end)
               else xrow_map (pair 1) r)
  | _ => Some (xrow_map (pair 2) (arow B (snd x)))
  end.
Definition concat_pre (A B : nfa) : nfa :=
  let xs := concat_xs A B in
  assemble (fun x => pidx x xs) xs (usyms A B) (concat_rowof A B) (1, n_init A) (map (pair 2) (n_finals B)).
Definition nfa_concat (A B : nfa) : res nfa :=
  if lookups_ok A && lookups_ok B then check_nfa (concat_pre A B) else Err KeyErr.

(* ---- star / option / reverse keep the names and add one fresh state ---- *)
Definition idn (x : nat) : nat := x.

Definition star_rowof (A : nfa) (n x : nat) : option (xrow nat) :=
  if Nat.eqb x n then Some [(None, [n_init A])]
  else if memb x (n_finals A)
       then let r := arow A x in
            Some (tab (map fst r ++ [None])
                      (fun a => xtg r a ++ match a with None => [n_init A] | Some _ => [] end))
       else assoc x (n_trans A).
Definition star_pre (A : nfa) : nfa :=
  let n := fresh (n_states A) in
  assemble idn (n_states A ++ [n]) (n_syms A) (star_rowof A n) n (n_finals A ++ [n]).
Definition nfa_star (A : nfa) : res nfa := check_nfa (star_pre A).

Definition option_rowof (A : nfa) (n x : nat) : option (xrow nat) :=
  if Nat.eqb x n then Some [(None, [n_init A])] else assoc x (n_trans A).
Definition option_pre (A : nfa) : nfa :=
  let n := fresh (n_states A) in
  assemble idn (n_states A ++ [n]) (n_syms A) (option_rowof A n) n (n_finals A ++ [n]).
Definition nfa_option (A : nfa) : res nfa := check_nfa (option_pre A).

Definition okeys (A : nfa) : list (option nat) := None :: map Some (n_syms A).
(* row of x in the reversed automaton: key a iff some state has an a-edge into x;
   rows keyed by a name that is not a state are skipped, as in the code *)
Definition rev_sources (A : nfa) (x : nat) (a : option nat) : list nat :=
  filter (fun p => memb x (n_targets A p a))
         (filter (fun p => memb p (n_states A)) (map fst (n_trans A))).
Definition reverse_rowof (A : nfa) (n x : nat) : option (xrow nat) :=
  Some (if Nat.eqb x n then [(None, n_finals A)]
        else tab (filter (fun a => nonempty (rev_sources A x a)) (okeys A)) (rev_sources A x)).
Definition reverse_pre (A : nfa) : nfa :=
  let n := fresh (n_states A) in
  assemble idn (n_states A ++ [n]) (n_syms A) (reverse_rowof A n) n [n_init A].
Definition nfa_reverse (A : nfa) : res nfa := check_nfa (reverse_pre A).

(* ---- intersection: breadth-first product from the pair of initial states ---- *)
Definition inter_row (A B : nfa) (syms : list nat) (x : nat * nat) : xrow (nat * nat) :=
  let ra := arow A (fst x) in
  let rb := arow B (snd x) in
  tab ((if has_key ra None || has_key rb None then [None] else [])
         ++ map Some (filter (fun s => has_key ra (Some s) && has_key rb (Some s)) syms))
      (fun a => match a with
                | None => map (fun t => (t, snd x)) (xtg ra None) ++ map (fun t => (fst x, t)) (xtg rb None)
                | Some s => list_prod (xtg ra a) (xtg rb a)
                end).
Definition inter_states (A B : nfa) : option (list (nat * nat)) :=
  closure eqb_pp (fun x => row_targets (inter_row A B (usyms A B) x))
          (S (length (n_states A) * length (n_states B))) [(n_init A, n_init B)].
Definition inter_pre (A B : nfa) (ps : list (nat * nat)) : nfa :=
  assemble (fun x => pidx x ps) ps (usyms A B) (fun x => opt_row (inter_row A B (usyms A B) x))
           (n_init A, n_init B)
           (filter (fun x => memb (fst x) (n_finals A) && memb (snd x) (n_finals B)) ps).
Definition nfa_intersection (A B : nfa) : res nfa :=
  match inter_states A B with
  | None => Err Fuel
  | Some ps => check_nfa (inter_pre A B ps)
  end.

(* ---- shuffle: full product, either side moves ---- *)
Definition shuffle_rowof (A B : nfa) (x : nat * nat) : option (xrow (nat * nat)) :=
  let ra := arow A (fst x) in
  let rb := arow B (snd x) in
  Some (tab (map fst ra ++ map fst rb)
            (fun a => map (fun t => (t, snd x)) (xtg ra a) ++ map (fun t => (fst x, t)) (xtg rb a))).
Definition shuffle_pre (A B : nfa) : nfa :=
  let xs := list_prod (n_states A) (n_states B) in
  assemble (fun x => pidx x xs) xs (usyms A B) (shuffle_rowof A B) (n_init A, n_init B)
           (list_prod (n_finals A) (n_finals B)).
Definition nfa_shuffle (A B : nfa) : res nfa := check_nfa (shuffle_pre A B).

(* ---- _eliminate_lambda ---- *)
Definition ecl (A : nfa) (q : nat) : list nat :=
  match eclosure A q with Ok c => c | Err _ => [] end.
Definition encl (A : nfa) (q : nat) : list nat := filter (fun p => negb (Nat.eqb p q)) (ecl A q).
(* _get_next_current_states(lambda_closure(q) - {q}, a) *)
Definition elim_next (A : nfa) (q a : nat) : list nat :=
  flat_map (fun p => flat_map (ecl A) (n_targets A p (Some a))) (encl A q).
Definition elim_new_syms (A : nfa) (q : nat) : list nat :=
  filter (fun a => nonempty (elim_next A q a)) (n_syms A).
Definition elim_row (A : nfa) (q : nat) : xrow nat :=
  let r := arow A q in
  tab (filter is_some (map fst r) ++ map Some (elim_new_syms A q))
      (fun a => match a with
                | Some s => xtg r a ++ elim_next A q s
                | None => []
                end).
Definition elim_rowof (A : nfa) (q : nat) : option (xrow nat) :=
  if is_some (assoc q (n_trans A)) || nonempty (elim_new_syms A q) then Some (elim_row A q) else None.
(* new_final_states grows while the loop over the states runs *)
Definition elim_finals (A : nfa) : list nat :=
  fold_left (fun acc q => if existsb (fun p => memb p acc) (encl A q) then q :: acc else acc)
            (n_states A) (n_finals A).
Record eparts := mkeparts { e_states : list nat; e_rowof : nat -> option (xrow nat); e_finals : list nat }.
Definition elim_parts (A : nfa) : res eparts :=
  match closure Nat.eqb (fun q => row_targets (elim_row A q)) (S (length (n_states A))) [n_init A] with
  | None => Err Fuel
  | Some reach =>
    let nf := elim_finals A in
    Ok (mkeparts reach (elim_rowof A) (filter (fun q => memb q nf) reach))
  end.
Definition nfa_eliminate_lambda (A : nfa) : res nfa :=
  bind (elim_parts A) (fun e =>
    check_nfa (assemble idn (e_states e) (n_syms A) (e_rowof e) (n_init A) (e_finals e))).

Definition erow (e : eparts) (q : nat) : xrow nat :=
  match e_rowof e q with Some r => r | None => [] end.

(* targets of the joint moves of a product state (used with the empty string as label) *)
Definition joint_keys (ra rb : xrow nat) (syms : list nat) : list nat :=
  filter (fun s => has_key ra (Some s) && has_key rb (Some s)) syms.
Definition joint_targets (ra rb : xrow nat) (syms : list nat) : list (nat * nat) :=
  flat_map (fun s => list_prod (xtg ra (Some s)) (xtg rb (Some s))) (joint_keys ra rb syms).

Definition triple := (nat * nat * bool)%type.

(* ---- right quotient L(A)/L(B): read the word in A, then guess a common suffix ---- *)
Definition rq_xs (ea eb : eparts) (ib : nat) : list triple :=
  map (fun q => (q, ib, false)) (e_states ea) ++ map (fun p => (p, true)) (list_prod (e_states ea) (e_states eb)).
Definition rq_rowof (ea eb : eparts) (syms : list nat) (ib : nat) (x : triple) : option (xrow triple) :=
  let qa := fst (fst x) in
  let qb := snd (fst x) in
  if snd x then
    let ks := joint_keys (erow ea qa) (erow eb qb) syms in
    match ks with
    | [] => None
    | _ => Some [(None, map (fun p => (p, true)) (joint_targets (erow ea qa) (erow eb qb) syms))]
    end
  else
    Some (tab (map fst (erow ea qa) ++ [None])
              (fun a => match a with
                        | None => [(qa, ib, true)]
                        | Some _ => map (fun t => (t, ib, false)) (xtg (erow ea qa) a)
                        end)).
Definition rq_pre (A B : nfa) (ea eb : eparts) : nfa :=
  let xs := rq_xs ea eb (n_init B) in
  assemble (fun x => tidx x xs) xs (usyms A B) (rq_rowof ea eb (usyms A B) (n_init B))
           (n_init A, n_init B, false)
           (map (fun p => (p, true)) (list_prod (e_finals ea) (e_finals eb))).
Definition nfa_right_quotient (A B : nfa) : res nfa :=
  bind (elim_parts A) (fun ea => bind (elim_parts B) (fun eb => check_nfa (rq_pre A B ea eb))).

(* ---- left quotient L(B)\L(A): guess a common prefix, then read the word in A.
   Modelled after the repair: the initial product state always has a row. ---- *)
Definition lq_xs (ea eb : eparts) : list triple :=
  map (fun p => (p, false)) (list_prod (e_states ea) (e_states eb))
  ++ map (fun p => (p, true)) (list_prod (e_states ea) (e_finals eb)).
Definition lq_rowof (ea eb : eparts) (syms : list nat) (x0 : triple) (x : triple) : option (xrow triple) :=
  let qa := fst (fst x) in
  let qb := snd (fst x) in
  if snd x then
    Some (tab (map fst (erow ea qa)) (fun a => map (fun t => (t, qb, true)) (xtg (erow ea qa) a)))
  else
    let ks := joint_keys (erow ea qa) (erow eb qb) syms in
    let fb := memb qb (e_finals eb) in
    if nonempty ks || fb then
      Some [(None, map (fun p => (p, false)) (joint_targets (erow ea qa) (erow eb qb) syms)
                   ++ (if fb then [(qa, qb, true)] else []))]
    else if eqb_ppb x x0 then Some [] else None.
Definition lq_pre (A B : nfa) (ea eb : eparts) : nfa :=
  let xs := lq_xs ea eb in
  let x0 := (n_init A, n_init B, false) in
  assemble (fun x => tidx x xs) xs (usyms A B) (lq_rowof ea eb (usyms A B) x0) x0
           (map (fun p => (p, true)) (list_prod (e_finals ea) (e_finals eb))).
Definition nfa_left_quotient (A B : nfa) : res nfa :=
  bind (elim_parts A) (fun ea => bind (elim_parts B) (fun eb => check_nfa (lq_pre A B ea eb))).

(* ---- comparator with an explicit fuel cap (Decide.nfa_diff's exact fuel
   2^|A| * 2^|B| is a unary number in the extracted driver) ---- *)
Definition nfa_diff_cap (fuel : nat) (A B : nfa) : res (option word) :=
  ores (gdiff (list nat) (list nat) (eqb_list Nat.eqb) (eqb_list Nat.eqb)
              (nset_step A) (nset_step B) (nset_final A) (nset_final B)
              (set_union (n_syms A) (n_syms B)) fuel (nset_init A) (nset_init B)).

(* ---- finite compositions of the operations ("programs" of the property) ---- *)
Inductive nexp :=
| NLeaf (A : nfa)
| NUnion (e f : nexp) | NConcat (e f : nexp) | NStar (e : nexp) | NOption (e : nexp) | NReverse (e : nexp)
| NInter (e f : nexp) | NShuffle (e f : nexp) | NRQuot (e f : nexp) | NLQuot (e f : nexp).

Definition bind2 (x y : res nfa) (f : nfa -> nfa -> res nfa) : res nfa :=
  bind x (fun a => bind y (fun b => f a b)).

Fixpoint nfa_eval (e : nexp) : res nfa :=
  match e with
  | NLeaf A => Ok A
  | NUnion e f => bind2 (nfa_eval e) (nfa_eval f) nfa_union
  | NConcat e f => bind2 (nfa_eval e) (nfa_eval f) nfa_concat
  | NStar e => bind (nfa_eval e) nfa_star
  | NOption e => bind (nfa_eval e) nfa_option
  | NReverse e => bind (nfa_eval e) nfa_reverse
  | NInter e f => bind2 (nfa_eval e) (nfa_eval f) nfa_intersection
  | NShuffle e f => bind2 (nfa_eval e) (nfa_eval f) nfa_shuffle
  | NRQuot e f => bind2 (nfa_eval e) (nfa_eval f) nfa_right_quotient
  | NLQuot e f => bind2 (nfa_eval e) (nfa_eval f) nfa_left_quotient
  end.

Fixpoint nexp_leaves_ok (e : nexp) : bool :=
  match e with
  | NLeaf A => valid_nfa A
  | NStar e | NOption e | NReverse e => nexp_leaves_ok e
  | NUnion e f | NConcat e f | NInter e f | NShuffle e f | NRQuot e f | NLQuot e f =>
    nexp_leaves_ok e && nexp_leaves_ok f
  end.
