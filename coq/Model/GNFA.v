(* C12 - generalised NFAs and Kleene's state elimination at the level of expression ASTs.
   Mirrors automata/fa/gnfa.py: GNFA.from_dfa / GNFA.from_nfa (fresh initial and final state,
   empty-string edges to the old initial state / from the old final states, parallel edges merged
   by union, NFA empty-string edges as REps labels) and GNFA.to_regex (rip one inner state at a
   time: new(i,j) = old(i,j) | label(i,q) label(q,q)* label(q,j), kept unchanged when label(i,q)
   or label(q,j) is missing).  The assembly of the expression *string* (bracket rules, "?", "|")
   is not modelled here; the correspondence parses the implementation's string with the library's
   own parser and compares languages.  No proofs in this file. *)
From Coq Require Import List Arith Bool.
From AV Require Import Base.Util Spec.Lang Spec.FA Spec.Regex0.
Import ListNotations.

Record gnfa := mkgnfa {
  g_states : list nat; g_init : nat; g_final : nat;
  g_tab : list ((nat * nat) * rex) }.          (* a missing key = no edge (Python: label None) *)

Fixpoint assoc2 (p q : nat) (l : list ((nat * nat) * rex)) : option rex :=
  match l with
  | [] => None
  | ((p', q'), r) :: t => if Nat.eqb p p' && Nat.eqb q q' then Some r else assoc2 p q t
  end.

(* edges only count between listed states (GNFA.validate refuses anything else) *)
Definition label (g : gnfa) (p q : nat) : option rex :=
  if memb p (g_states g) && memb q (g_states g) then assoc2 p q (g_tab g) else None.

Definition tabulate (sts : list nat) (f : nat -> nat -> option rex) : list ((nat * nat) * rex) :=
  flat_map (fun p => flat_map (fun q => match f p q with Some r => [((p, q), r)] | None => [] end) sts) sts.

Definition is_none {A} (o : option A) : bool := match o with None => true | Some _ => false end.

(* the shape to_regex relies on: distinct initial and final state, nothing enters the initial
   state, nothing leaves the final state *)
Definition valid_gnfa (g : gnfa) : bool :=
  memb (g_init g) (g_states g) && memb (g_final g) (g_states g) &&
  negb (Nat.eqb (g_init g) (g_final g)) &&
  forallb (fun p => is_none (label g p (g_init g)) && is_none (label g (g_final g) p)) (g_states g).

(* ---- ripping a state (the body of the while loop of to_regex) ---- *)
Definition rip_lab (lab : nat -> nat -> option rex) (q i j : nat) : option rex :=
  match lab i q, lab q j with
  | Some r1, Some r3 =>
    let mid := match lab q q with
               | Some r2 => RCat r1 (RCat (RStar r2) r3)
               | None => RCat r1 r3
               end in
    Some (match lab i j with Some r4 => RUnion r4 mid | None => mid end)
  | _, _ => lab i j
  end.

Definition remove_nat (q : nat) (l : list nat) : list nat := filter (fun x => negb (Nat.eqb x q)) l.

Definition rip (g : gnfa) (q : nat) : gnfa :=
  let sts := remove_nat q (g_states g) in
  mkgnfa sts (g_init g) (g_final g) (tabulate sts (rip_lab (label g) q)).

Fixpoint elim_g (g : gnfa) (order : list nat) : gnfa :=
  match order with
  | [] => g
  | q :: r => elim_g (rip g q) r
  end.

(* the expression read off the last remaining edge; no edge = no string at all *)
Definition elim (g : gnfa) (order : list nat) : rex :=
  let g' := elim_g g order in
  match label g' (g_init g') (g_final g') with Some r => r | None => REmpty end.

(* ---- GNFA.from_dfa / GNFA.from_nfa ---- *)
Definition fresh (l : list nat) : nat := S (fold_right Nat.max 0 l).

Definition unions (l : list rex) : option rex :=
  match l with [] => None | r :: t => Some (fold_left RUnion t r) end.

Definition fa_gnfa (sts : list nat) (q0 : nat) (finals : list nat) (lab : nat -> nat -> option rex) : gnfa :=
  let i := fresh sts in
  let f := S i in
  let all := i :: f :: sts in
  mkgnfa all i f
    (tabulate all (fun p q =>
       if Nat.eqb p i then (if Nat.eqb q q0 then Some REps else None)
       else if Nat.eqb p f then None
       else if Nat.eqb q i then None
       else if Nat.eqb q f then (if memb p finals then Some REps else None)
       else lab p q)).

(* all symbols leading from p to q, merged by "|" in the order of the row *)
Definition dfa_lab (d : dfa) (p q : nat) : option rex :=
  match d_row d p with
  | Some row => unions (flat_map (fun e => if eqb_opt Nat.eqb (assoc (fst e) row) (Some q)
                                           then [RSym (fst e)] else []) row)
  | None => None
  end.

Definition gnfa_of_dfa (d : dfa) : gnfa := fa_gnfa (d_states d) (d_init d) (d_finals d) (dfa_lab d).

Definition osym_rex (o : option nat) : rex := match o with None => REps | Some a => RSym a end.

Definition nfa_lab (n : nfa) (p q : nat) : option rex :=
  match assoc p (n_trans n) with
  | Some row => unions (flat_map (fun e => if memb q (n_targets n p (fst e))
                                           then [osym_rex (fst e)] else []) row)
  | None => None
  end.

Definition gnfa_of_nfa (n : nfa) : gnfa := fa_gnfa (n_states n) (n_init n) (n_finals n) (nfa_lab n).

(* ---- the language of a GNFA (declarative): words that decompose along a path from the initial
   to the final state, each piece in the denotation of the label of the edge taken ---- *)
Inductive lpath (lab : nat -> nat -> option rex) : nat -> word -> nat -> Prop :=
| lp_nil p : lpath lab p [] p
| lp_step p q r s u v : lab p q = Some s -> rden s u -> lpath lab q v r -> lpath lab p (u ++ v) r.

Definition L_gnfa (g : gnfa) : lang := fun w => lpath (label g) (g_init g) w (g_final g).

(* ---- a matcher for the ASTs (Brzozowski derivatives with the trivial simplifications) ---- *)
Fixpoint nullable (r : rex) : bool :=
  match r with
  | REmpty => false
  | REps => true
  | RSym _ => false
  | RUnion r s => nullable r || nullable s
  | RCat r s => nullable r && nullable s
  | RStar _ => true
  end.

Definition s_union (r s : rex) : rex :=
  match r, s with
  | REmpty, _ => s
  | _, REmpty => r
  | _, _ => RUnion r s
  end.

Definition s_cat (r s : rex) : rex :=
  match r, s with
  | REmpty, _ => REmpty
  | _, REmpty => REmpty
  | REps, _ => s
  | _, REps => r
  | _, _ => RCat r s
  end.

Fixpoint deriv (a : nat) (r : rex) : rex :=
  match r with
  | REmpty => REmpty
  | REps => REmpty
  | RSym b => if Nat.eqb a b then REps else REmpty
  | RUnion r s => s_union (deriv a r) (deriv a s)
  | RCat r s => if nullable r then s_union (s_cat (deriv a r) s) (deriv a s) else s_cat (deriv a r) s
  | RStar r => s_cat (deriv a r) (RStar r)
  end.

Definition rmatch (r : rex) (w : word) : bool := nullable (fold_left (fun r a => deriv a r) w r).

(* all words over syms of length exactly k / at most k (shortest first) *)
Fixpoint words_len (syms : list nat) (k : nat) : list word :=
  match k with
  | 0 => [[]]
  | S k' => flat_map (fun a => map (cons a) (words_len syms k')) syms
  end.
Fixpoint words_upto (syms : list nat) (k : nat) : list word :=
  match k with
  | 0 => [[]]
  | S k' => words_upto syms k' ++ words_len syms k
  end.

(* first word of length <= k on which the expression and a reference verdict disagree *)
Definition rex_diff_upto (r : rex) (acc : word -> bool) (syms : list nat) (k : nat) : option word :=
  find (fun w => xorb (rmatch r w) (acc w)) (words_upto syms k).

Definition dfa_regex (d : dfa) (order : list nat) : rex := elim (gnfa_of_dfa d) order.
Definition nfa_regex (n : nfa) (order : list nat) : rex := elim (gnfa_of_nfa n) order.
