(* C19 dispatch: validate() of raw definitions.  Every table is sent in dict iteration order.
   op 1  DFA   (wire form of Model/Codec.v)            -> [validate outcome, valid_dfa, dfa_keys_ok]
   op 2  NFA   (wire form of Model/Codec.v)            -> [validate outcome, valid_nfa, nfa_keys_ok]
   op 3  GNFA  [states, [[q, [[t, label], ...]], ...], init, final]   label: [] None, [0] bad string, [1] good string
   op 4  NPDA  (wire form of Model/D02.v, mode any number: 0 final_state, 1 empty_stack, 2 both, else invalid)
   op 5  DPDA  (same)                                  -> [validate outcome, dpda_validate of Model/PDA.v]
   op 6  DTM   [states, input, tape, [[q, [[s, [q', w, d]], ...]], ...], init, blank, finals]
   op 7  NTM   [states, input, tape, [[q, [[s, [[q', w, d], ...]], ...]], ...], init, blank, finals]
   op 8  MNTM  [n, states, input, tape, [[q, [[[s..], [[q', [[w, d], ...]], ...]], ...]], ...], init, blank, finals]
   directions: 0 L, 1 R, 2 N, anything else invalid *)
From Coq Require Import List Arith NArith Bool.
From AV Require Import Base.Util Base.ITree Spec.Lang Spec.FA Spec.PDA Model.Codec Model.PDA Model.D02 Model.Validate.
Import ListNotations.

Definition enc_u (_ : unit) : itree := L [].

Definition dec_label (t : itree) : option (option bool) := dec_opt dec_bool t.

Definition dec_gnfa (t : itree) : option gnfa :=
  match t with
  | L [ts; ttr; ti; tf] =>
    match dec_nats ts, dec_list (dec_pair dec_nat (dec_list (dec_pair dec_nat dec_label))) ttr,
          dec_nat ti, dec_nat tf with
    | Some s, Some tr, Some i, Some f => Some (mkgnfa s tr i f)
    | _, _, _, _ => None
    end
  | _ => None
  end.

(* a PDA with any number as acceptance mode; the record gets BothModes when the number is invalid *)
Definition mode_of_nat (n : nat) : acc_mode :=
  match n with 0 => FinalState | 1 => EmptyStack | _ => BothModes end.

Definition dec_raw_pda (t : itree) : option (pda * nat) :=
  match t with
  | L [ts; ty; tk; ttr; ti; tz; tf; tm] =>
    match dec_nats ts, dec_nats ty, dec_nats tk, dec_list (dec_pair dec_nat dec_prow) ttr,
          dec_nat ti, dec_nat tz, dec_nats tf, dec_nat tm with
    | Some s, Some y, Some k, Some tr, Some i, Some z, Some f, Some md =>
      Some (mkpda s y k tr i z f (mode_of_nat md), md)
    | _, _, _, _, _, _, _, _ => None
    end
  | _ => None
  end.

(* the three TM table shapes, embedded in the raw record *)
Definition dec_ract (t : itree) : option tresult :=
  match t with
  | L [a; b; c] => match dec_nat a, dec_nat b, dec_nat c with
                   | Some q, Some s, Some d => Some (q, [(s, d)])
                   | _, _, _ => None
                   end
  | _ => None
  end.

Definition dec_key1 (t : itree) : option (list nat) :=
  match dec_nat t with Some s => Some [s] | None => None end.

Definition dec_dtm_entry (t : itree) : option (list nat * list tresult) :=
  match t with
  | L [k; r] => match dec_key1 k, dec_ract r with
                | Some key, Some res => Some (key, [res])
                | _, _ => None
                end
  | _ => None
  end.

Definition dec_ntm_entry : itree -> option (list nat * list tresult) :=
  dec_pair dec_key1 (dec_list dec_ract).

Definition dec_mresult : itree -> option tresult :=
  dec_pair dec_nat (dec_list (dec_pair dec_nat dec_nat)).
Definition dec_mntm_entry : itree -> option (list nat * list tresult) :=
  dec_pair dec_nats (dec_list dec_mresult).

Definition dec_rtm (entry : itree -> option (list nat * list tresult)) (l : list itree) : option rtm :=
  match l with
  | [ts; ti; tp0; ttr; tq; tb; tf] =>
    match dec_nats ts, dec_nats ti, dec_nats tp0, dec_list (dec_pair dec_nat (dec_list entry)) ttr,
          dec_nat tq, dec_nat tb, dec_nats tf with
    | Some s, Some i, Some tp, Some tr, Some q, Some b, Some f => Some (mkrtm s i tp tr q b f)
    | _, _, _, _, _, _, _ => None
    end
  | _ => None
  end.

Definition d19 (op : nat) (t : itree) : itree :=
  match op, t with
  | 1, tm => match dec_dfa tm with
             | Some m => L [enc_res enc_u (dfa_validate m); Ib (valid_dfa m); Ib (dfa_keys_ok m)]
             | None => bad_input
             end
  | 2, tm => match dec_nfa tm with
             | Some m => L [enc_res enc_u (nfa_validate m); Ib (valid_nfa m); Ib (nfa_keys_ok m)]
             | None => bad_input
             end
  | 3, tm => match dec_gnfa tm with
             | Some m => L [enc_res enc_u (gnfa_validate m)]
             | None => bad_input
             end
  | 4, tm => match dec_raw_pda tm with
             | Some (m, md) => L [enc_res enc_u (npda_validate m md)]
             | None => bad_input
             end
  | 5, tm => match dec_raw_pda tm with
             | Some (m, md) => L [enc_res enc_u (dpda_validate_raw m md); enc_res enc_u (dpda_validate m)]
             | None => bad_input
             end
  | 6, L l => match dec_rtm dec_dtm_entry l with
              | Some m => L [enc_res enc_u (dtm_validate m)]
              | None => bad_input
              end
  | 7, L l => match dec_rtm dec_ntm_entry l with
              | Some m => L [enc_res enc_u (ntm_validate m)]
              | None => bad_input
              end
  | 8, L (tn :: l) => match dec_nat tn, dec_rtm dec_mntm_entry l with
                      | Some n, Some m => L [enc_res enc_u (mntm_validate n m)]
                      | _, _ => bad_input
                      end
  | _, _ => bad_input
  end.
