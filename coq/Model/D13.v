(* C13 dispatch *)
From Coq Require Import List Arith NArith Bool.
From AV Require Import Base.Util Base.ITree Spec.Lang Spec.FA Model.Codec Model.Count.
Import ListNotations.

(* op 1: [dfa, kmax, n] -> [valid, [cnt 0..kmax], [wl 0..kmax], min, max, cardinality,
                            first n words of iteration, isempty, isfinite]
   op 2: [dfa (rows in the dict's iteration order), k, [draw...]] -> [random_word, totals] *)
Definition d13 (op : nat) (t : itree) : itree :=
  match op, t with
  | 1, L [tm; tk; tn] =>
    match dec_dfa tm, dec_nat tk, dec_nat tn with
    | Some m, Some kmax, Some n =>
      L [Ib (valid_dfa m);
         enc_list (fun k => I (cnt m k (d_init m))) (seq 0 (S kmax));
         enc_list (fun k => enc_list enc_nats (wl m k (d_init m))) (seq 0 (S kmax));
         enc_res In_ (min_len m);
         enc_res (enc_opt In_) (max_len m);
         enc_res I (cardinality m);
         enc_res (enc_list enc_nats) (iter_upto m n);
         enc_res Ib (isempty m);
         enc_res Ib (isfinite m)]
    | _, _, _ => bad_input
    end
  | 2, L [tm; tk; td] =>
    match dec_dfa tm, dec_nat tk, dec_list dec_N td with
    | Some m, Some k, Some ds =>
      L [enc_res enc_nats (random_word m k ds); enc_list I (rw_totals m k (d_init m) ds)]
    | _, _, _ => bad_input
    end
  | _, _ => bad_input
  end.
