(* C10 / C11 dispatch: regular expressions *)
From Coq Require Import List Arith NArith Bool.
From AV Require Import Base.Util Base.ITree Spec.Lang Spec.FA Spec.Regex Model.Codec Model.Decide
                       Model.RegexLex Model.RegexParse Model.RegexBuild Model.RegexCmp.
Import ListNotations.

Definition enc_token (t : token) : itree :=
  match t with
  | TSym a => L [In_ 0; In_ a] | TAny => L [In_ 1] | TUnion => L [In_ 2] | TInter => L [In_ 3]
  | TShuffle => L [In_ 4] | TStar => L [In_ 5] | TPlus => L [In_ 6] | TOpt => L [In_ 7]
  | TQuant lo hi => L [In_ 8; In_ lo; enc_opt In_ hi]
  | TLParen => L [In_ 9] | TRParen => L [In_ 10] | TConcat => L [In_ 11] | TEmpty => L [In_ 12]
  end.

Fixpoint enc_re (r : re) : itree :=
  match r with
  | REps => L [In_ 0] | RSym a => L [In_ 1; In_ a] | RAny => L [In_ 2]
  | RUnion a b => L [In_ 3; enc_re a; enc_re b]
  | RInter a b => L [In_ 4; enc_re a; enc_re b]
  | RShuffle a b => L [In_ 5; enc_re a; enc_re b]
  | RCat a b => L [In_ 6; enc_re a; enc_re b]
  | RStar a => L [In_ 7; enc_re a] | RPlus a => L [In_ 8; enc_re a] | ROpt a => L [In_ 9; enc_re a]
  | RRep a lo hi => L [In_ 10; enc_re a; In_ lo; enc_opt In_ hi]
  end.

Definition enc_unit (_ : unit) : itree := L [].
Definition dec_alpha : itree -> option (option (list nat)) := dec_opt dec_nats.

(* op 1: [chars, alpha?]            -> res nfa                       (NFA.from_regex)
   op 2: [chars, alpha?, impl nfa]  -> res [valid model, valid impl, diff]
   op 3: [chars]                    -> res ast                       (parse_regex)
   op 4: [chars]                    -> res tokens                    (lexer)
   op 5: [chars]                    -> res unit                      (regex.validate)
   op 6: [a, b, alpha?]             -> [isequal, issubset, issuperset]
   op 7: [chars, alpha?, [w...]]    -> res [acc...]                  (model NFA on words)
   op 8: [chars]                    -> [validate kind, from_regex kind] *)
Definition d10 (op : nat) (t : itree) : itree :=
  match op, t with
  | 1, L [tc; ta] =>
    match dec_nats tc, dec_alpha ta with
    | Some cs, Some al => enc_res enc_nfa (compile cs al)
    | _, _ => bad_input
    end
  | 2, L [tc; ta; tn] =>
    match dec_nats tc, dec_alpha ta, dec_nfa tn with
    | Some cs, Some al, Some impl =>
      enc_res (fun m => L [Ib (valid_nfa m); Ib (valid_nfa impl);
                           enc_res (enc_opt enc_nats) (nfa_diff m impl)])
              (compile cs al)
    | _, _, _ => bad_input
    end
  | 3, L [tc] =>
    match dec_nats tc with Some cs => enc_res enc_re (parse cs) | None => bad_input end
  | 4, L [tc] =>
    match dec_nats tc with Some cs => enc_res (enc_list enc_token) (lex cs) | None => bad_input end
  | 5, L [tc] =>
    match dec_nats tc with Some cs => enc_res enc_unit (validate cs) | None => bad_input end
  | 6, L [ta; tb; tal] =>
    match dec_nats ta, dec_nats tb, dec_alpha tal with
    | Some a, Some b, Some al =>
      L [enc_res Ib (isequal a b al); enc_res Ib (issubset a b al); enc_res Ib (issuperset a b al)]
    | _, _, _ => bad_input
    end
  | 7, L [tc; ta; tw] =>
    match dec_nats tc, dec_alpha ta, dec_list dec_word tw with
    | Some cs, Some al, Some ws =>
      enc_res (fun m => enc_list Ib (map (nfa_acc m) ws)) (compile cs al)
    | _, _, _ => bad_input
    end
  | 8, L [tc] =>
    match dec_nats tc with
    | Some cs => L [enc_res enc_unit (validate cs);
                    enc_res enc_unit (bind (compile cs None) (fun _ => Ok tt))]
    | None => bad_input
    end
  | _, _ => bad_input
  end.
