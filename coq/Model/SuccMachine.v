(* C14, mirror model (DESIGN 7/C14 T2): the explicit stack machine of DFA.successors
   (automata/fa/dfa.py:1470-1590) decision by decision, AFTER the one-line repair of DESIGN
   section 8 row 8 (the state is read from the stack after the loop).
   Stacks are lists with the top first (Python: deque, top last), so the current word is
   [rev c_chars].  sorted_symbols is the alphabet in ascending code order (codes = ranks under
   the user's key - of ALL characters in play, so a start word may hold codes that lie between,
   below or above the alphabet's), reversed for predecessors.  After the repairs e6d88f7 (helper
   next_symbol: a symbol of the start word outside the alphabet is followed by the first alphabet
   symbol after it in traversal order), 366d64a (should_yield is false after returning to a parent
   whose next candidate is first_symbol) and d88b819 (early guard for the empty alphabet) neither
   symbol_succ nor sorted_symbols[...] can raise.
   self.transitions[state] cannot raise for a valid DFA (C01: dfa_step_spec), so the step is ostep. *)
From Coq Require Import List Arith Bool.
From AV Require Import Base.Util Spec.Lang Spec.FA Spec.DictOrder Model.Decide Model.Product Model.Succ.
Import ListNotations.

(* symbol_succ = {a: b for a, b in pairwise(sorted_symbols)}; symbol_succ[last] = None *)
Fixpoint sym_succ (syms : list nat) (a : nat) : res (option nat) :=
  match syms with
  | [] => Err KeyErr
  | b :: r => if a =? b then Ok (hd_error r) else sym_succ r a
  end.

(* next_symbol(symbol) (dfa.py:1503-1514): symbol_succ[symbol] when the symbol is in the alphabet,
   otherwise the first symbol of sorted_symbols whose rank is greater (smaller when reverse) *)
Definition next_sym (syms : list nat) (reverse : bool) (a : nat) : option nat :=
  if memb a syms
  then match sym_succ syms a with Ok n => n | Err _ => None end
  else find (fun b => if reverse then b <? a else a <? b) syms.

Record cfg := mkcfg {
  c_states : list (option nat);   (* state_stack, top first *)
  c_chars : list nat;             (* char_stack, top first *)
  c_cand : option nat;            (* candidate *)
  c_yield : bool }.               (* should_yield *)

Section Machine.
  Variable m : dfa.
  Variable co : list nat.         (* coaccessible_nodes *)
  Variable syms : list nat.       (* sorted_symbols *)
  Variable first : nat.           (* first_symbol *)
  Variable reverse : bool.
  Variable lo : nat.
  Variable ohi : option nat.

  (* min_length <= len(char_stack) and (max_length is None or len(char_stack) <= max_length) *)
  Definition len_ok (n : nat) : bool :=
    (lo <=? n) && match ohi with None => true | Some hi => n <=? hi end.
  (* max_length is None or len(char_stack) < max_length *)
  Definition can_descend (n : nat) : bool :=
    match ohi with None => true | Some hi => n <? hi end.
  (* candidate_state in coaccessible_nodes (None is not a state) *)
  Definition in_co (s : option nat) : bool :=
    match s with Some t => memb t co | None => false end.

  (* the common shape of the three yield points *)
  Definition emit (c : cfg) (state : option nat) (dir_ok cand_ok : bool) : list word :=
    if dir_ok && c_yield c && len_ok (length (c_chars c)) && cand_ok && ofinal m state
    then [rev (c_chars c)] else [].

  (* one iteration of the while loop: (words yielded, next configuration) *)
  Definition mstep (c : cfg) : res (list word * cfg) :=
    match c_states c with
    | [] => Err IndexErr
    | state :: below_states =>
      (* successors yield here: candidate == first_symbol *)
      let y1 := emit c state (negb reverse) (eqb_opt Nat.eqb (c_cand c) (Some first)) in
      match c_cand c with
      | Some a =>
        let cstate := ostep m state a in
        if in_co cstate && can_descend (length (c_chars c)) then
          (* traverse to child *)
          Ok (y1, mkcfg (cstate :: c_states c) (a :: c_chars c) (Some first) true)
        else
          (* candidate is not None: no predecessor yield; next sibling *)
          Ok (y1, mkcfg (c_states c) (c_chars c) (next_sym syms reverse a) true)
      | None =>
        (* candidate_state = None is never viable; predecessors yield here; traverse to parent *)
        let y2 := emit c state reverse true in
        match c_chars c with
        | a :: cs =>
          (* back_at_parent (366d64a): after backing out of a symbol that comes before every alphabet
             symbol the candidate is first_symbol again, but the word on the stack has been passed *)
          let n := next_sym syms reverse a in
          Ok (y1 ++ y2, mkcfg below_states cs n (negb (eqb_opt Nat.eqb n (Some first))))
        | [] => Err IndexErr
        end
      end
    end.

  Fixpoint mloop (fuel : nat) (c : cfg) : res (list word) :=
    match c_chars c, c_cand c with
    | [], None =>
      (* loop exit; predecessor yields here for the empty string (state = state_stack[-1]) *)
      match c_states c with
      | [] => Err IndexErr
      | state :: _ => Ok (emit c state reverse true)
      end
    | _, _ =>
      match fuel with
      | 0 => Err Fuel
      | S f => bind (mstep c) (fun yc => bind (mloop f (snd yc)) (fun l => Ok (fst yc ++ l)))
      end
    end.
End Machine.

(* read_input_stepwise(input_str, ignore_rejection=True) pushed on a stack: last state first *)
Fixpoint trace_rev (m : dfa) (acc : list (option nat)) (q : option nat) (w : word) : list (option nat) :=
  match w with
  | [] => q :: acc
  | a :: r => trace_rev m (q :: acc) (ostep m q a) r
  end.

Definition init_cfg (m : dfa) (first : nat) (start : option word) (strict reverse : bool) : cfg :=
  match start with
  | None => mkcfg [Some (d_init m)] [] (Some first) true
  | Some s => mkcfg (trace_rev m [] (Some (d_init m)) s) (rev s)
                    (if reverse then None else Some first) (negb strict)
  end.

(* if not sorted_symbols: (dfa.py:1483-1498) over an empty alphabet the empty word is the only word *)
Definition empty_alphabet_guard (m : dfa) (start : option word) (strict reverse : bool) (lo : nat) : list word :=
  let wanted := match start with
                | None => true
                | Some [] => negb strict          (* include_input *)
                | Some (_ :: _) => reverse
                end in
  if wanted && (lo <=? 0) && memb (d_init m) (d_finals m) then [[]] else [].

Definition machine_syms (m : dfa) (reverse : bool) : list nat :=
  if reverse then rev (set_of (d_syms m)) else set_of (d_syms m).

Definition succ_machine (fuel : nat) (m : dfa) (start : option word) (strict reverse : bool)
           (lo : nat) (ohi : option nat) : res (list word) :=
  bind (if reverse then isfinite_m m else Ok true) (fun fin =>
  if negb fin then Err Infinite else
  bind (coreach_states m) (fun co =>
  match machine_syms m reverse with
  | [] => Ok (empty_alphabet_guard m start strict reverse lo)
  | first :: _ =>
    mloop m co (machine_syms m reverse) first reverse lo ohi fuel (init_cfg m first start strict reverse)
  end)).

(* number of words of length <= h over n symbols; the loop runs at most once per (node, candidate) *)
Fixpoint words_upto (n h : nat) : nat :=
  match h with 0 => 1 | S h' => 1 + n * words_upto n h' end.

Definition machine_fuel (m : dfa) (start : option word) (ohi : option nat) : nat :=
  let n := length (set_of (d_syms m)) in
  S ((words_upto n (the_hi m ohi) + match start with Some s => length s | None => 0 end + 1) * (n + 2)).
