(* DFA._expand_dfa: build a DFA from a labelled deterministic graph explored from an
   initial node (states numbered in discovery order, as get_renaming_function(count(0))
   does; with retain_names the nodes themselves are the names - an isomorphic DFA). *)
From Coq Require Import List Arith Bool.
From AV Require Import Base.Util Base.Closure Spec.Lang Spec.FA.
Import ListNotations.

Fixpoint number {A} (i : nat) (l : list A) : list (nat * A) :=
  match l with [] => [] | x :: r => (i, x) :: number (S i) r end.

Section Build.
  Variable P : Type.
  Variable eqbP : P -> P -> bool.
  Variable lsucc : P -> list (nat * P).   (* (symbol, target) *)
  Variable isfinal : P -> bool.

  Fixpoint index_of (p : P) (l : list P) : option nat :=
    match l with
    | [] => None
    | x :: r => if eqbP p x then Some 0 else option_map S (index_of p r)
    end.

  Definition brow (ps : list P) (p : P) : list (nat * nat) :=
    flat_map (fun ct => match index_of (snd ct) ps with Some j => [(fst ct, j)] | None => [] end) (lsucc p).

  Definition build_from (syms : list nat) (ps : list P) : dfa :=
    let rows := map (fun ip => (fst ip, brow ps (snd ip))) (number 0 ps) in
    mkdfa (seq 0 (length ps)) syms rows 0
          (map fst (filter (fun ip => isfinal (snd ip)) (number 0 ps)))
          (existsb (fun r => negb (Nat.eqb (length (snd r)) (length syms))) rows).

  Definition explore (fuel : nat) (init : P) : option (list P) :=
    closure eqbP (fun p => map snd (lsucc p)) fuel [init].

  Definition build_dfa (syms : list nat) (fuel : nat) (init : P) : res dfa :=
    match explore fuel init with
    | None => Err Fuel
    | Some ps => Ok (build_from syms ps)
    end.
End Build.
