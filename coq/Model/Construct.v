(* C15: the language constructors of DFA (automata/fa/dfa.py, classmethods from_prefix ...
   empty_language).  All of them number their states canonically (0, 1, 2, ...), so the
   models produce the same table as the code and can be compared with it literally.
   The error state -1 of from_prefix is numbered |prefix|+1 here (the harness maps it).

   Mirror models: from_prefix, from_subsequence, of_length, count_mod, nth_from_start,
   nth_from_end, universal_language, empty_language.
   Specification model: from_substring / from_suffix - the state after reading a text is
   the length of the longest prefix of the pattern that is a suffix of the text (absorbing
   at |pattern| for substring), computed by trying candidate lengths from long to short;
   the KMP failure table of the code is not modelled.
   is_minimal: executable minimality test evaluated on the implementation's results. *)
From Coq Require Import List Arith Bool.
From AV Require Import Base.Util Base.Closure Spec.Lang Spec.FA Spec.Preds Model.Decide Model.Product.
Import ListNotations.

(* ---- DFAs given by a transition function on states 0..n-1 ---- *)
Definition orow (syms : list nat) (g : nat -> option nat) : list (nat * nat) :=
  flat_map (fun a => match g a with Some t => [(a, t)] | None => [] end) syms.

Definition table_dfa (syms : list nat) (n : nat) (f : nat -> nat -> option nat)
           (fin : nat -> bool) (partial : bool) : dfa :=
  mkdfa (seq 0 n) syms (map (fun q => (q, orow syms (f q))) (seq 0 n)) 0
        (filter fin (seq 0 n)) partial.

(* ---- universal_language / empty_language ---- *)
Definition universal_m (syms : list nat) : dfa :=
  table_dfa syms 1 (fun _ _ => Some 0) (fun _ => true) false.
Definition empty_m (syms : list nat) : dfa :=
  table_dfa syms 1 (fun _ _ => Some 0) (fun _ => false) false.

(* ---- from_prefix ---- *)
(* "Can't construct this as a partial if we need to take the complement" *)
Definition prefix_needs_err (contains as_partial : bool) : bool := negb as_partial || negb contains.

Definition prefix_f (p : word) (err : bool) (q a : nat) : option nat :=
  let l := length p in
  match nth_error p q with
  | Some c => if Nat.eqb c a then Some (S q) else if err then Some (S l) else None
  | None => if Nat.eqb q l then Some l else Some (S l)
  end.

Definition from_prefix_m (syms : list nat) (p : word) (contains as_partial : bool) : dfa :=
  let l := length p in
  let err := prefix_needs_err contains as_partial in
  table_dfa syms (if err then S (S l) else S l) (prefix_f p err)
            (fun q => flagb contains (Nat.eqb q l))
            (* is_partial = any(len(lookup) != len(input_symbols)) *)
            (negb err && Nat.ltb 0 l && negb (Nat.eqb (length syms) 1)).

(* ---- from_subsequence ---- *)
Definition subseq_f (p : word) (q a : nat) : option nat :=
  match nth_error p q with
  | Some c => if Nat.eqb c a then Some (S q) else Some q
  | None => Some q
  end.

Definition from_subsequence_m (syms : list nat) (p : word) (contains : bool) : dfa :=
  table_dfa syms (S (length p)) (subseq_f p) (fun q => flagb contains (Nat.eqb q (length p))) false.

(* ---- from_substring / from_suffix (specification model) ---- *)
Definition lastn {A} (k : nat) (t : list A) : list A := skipn (length t - k) t.

(* largest j <= k such that the first j symbols of p are the last j symbols of t *)
Fixpoint try_len (p t : word) (k : nat) : nat :=
  match k with
  | 0 => 0
  | S k' => if eqb_list Nat.eqb (firstn k p) (lastn k t) then k else try_len p t k'
  end.

(* length of the longest prefix of p that is a suffix of t *)
Definition lps (p t : word) : nat := try_len p t (Nat.min (length p) (length t)).

Definition substring_f (p : word) (must_be_suffix : bool) (q a : nat) : option nat :=
  if negb must_be_suffix && Nat.eqb q (length p) then Some q
  else Some (lps p (firstn q p ++ [a])).

Definition from_substring_m (syms : list nat) (p : word) (contains must_be_suffix : bool) : dfa :=
  match p with
  | [] => if contains then universal_m syms else empty_m syms   (* the repaired empty-pattern case *)
  | _ :: _ =>
    table_dfa syms (S (length p)) (substring_f p must_be_suffix)
              (fun q => flagb contains (Nat.eqb q (length p))) false
  end.

Definition from_suffix_m (syms : list nat) (p : word) (contains : bool) : dfa :=
  from_substring_m syms p contains true.

(* ---- of_length ---- *)
Definition of_length_m (syms : list nat) (lo : nat) (hi : option nat) (cnt : option (list nat)) : dfa :=
  let cs := match cnt with Some c => c | None => syms end in
  match hi with
  | None =>       (* states 0..lo, lo absorbing and final *)
    table_dfa syms (S lo)
              (fun q a => if Nat.ltb q lo then (if memb a cs then Some (S q) else Some q) else Some q)
              (fun q => Nat.eqb q lo) false
  | Some h =>     (* states 0..h+1, h+1 absorbing; finals lo..h *)
    table_dfa syms (S (S h))
              (fun q a => if Nat.leb q h then (if memb a cs then Some (S q) else Some q) else Some q)
              (fun q => Nat.leb lo q && Nat.leb q h) false
  end.

(* ---- count_mod ---- *)
Definition count_mod_m (syms : list nat) (k : nat) (rems : option (list nat)) (cnt : option (list nat))
  : res dfa :=
  let cs := match cnt with Some c => c | None => syms end in
  let rs := match rems with Some r => r | None => [0] end in
  match k with
  | 0 => Err ValueErr
  | S _ =>
    if forallb (fun r => Nat.ltb r k) rs
    then Ok (table_dfa syms k (fun q a => if memb a cs then Some (S q mod k) else Some q)
                       (fun q => memb q rs) false)
    else Err (Invalid 1)    (* final_states not a subset of states: InvalidStateError *)
  end.

(* ---- nth_from_start / nth_from_end ---- *)
Definition nth_guard (syms : list nat) (s n : nat) (k : unit -> dfa) : res dfa :=
  match n with
  | 0 => Err ValueErr
  | S _ =>
    if negb (memb s syms) then Err (Invalid 2)          (* InvalidSymbolError *)
    else if Nat.eqb (length syms) 1 then Ok (of_length_m syms n None None)
    else Ok (k tt)
  end.

Definition nth_start_f (s n q a : nat) : option nat :=
  if Nat.ltb (S q) n then Some (S q)
  else if Nat.eqb (S q) n then (if Nat.eqb a s then Some (S n) else Some n)
  else Some q.

Definition nth_from_start_m (syms : list nat) (s n : nat) : res dfa :=
  nth_guard syms s n (fun _ =>
    table_dfa syms (S (S n)) (nth_start_f s n) (fun q => Nat.eqb q (S n)) false).

(* shift register: the state is the last n symbols read as bits (1 = the target symbol) *)
Definition nth_end_f (s n q a : nat) : option nat :=
  Some ((2 * q + (if Nat.eqb a s then 1 else 0)) mod Nat.pow 2 n).

Definition nth_from_end_m (syms : list nat) (s n : nat) : res dfa :=
  nth_guard syms s n (fun _ =>
    table_dfa syms (Nat.pow 2 n) (nth_end_f s n) (fun q => Nat.leb (Nat.div (Nat.pow 2 n) 2) q) false).

(* ---- minimality test for a result ---- *)
Definition with_init (m : dfa) (q : nat) : dfa :=
  mkdfa (d_states m) (d_syms m) (d_trans m) q (d_finals m) (d_partial m).

Definition distinguishable (m : dfa) (p q : nat) : bool :=
  match dfa_diff (with_init m p) (with_init m q) with
  | Ok (Some _) => true
  | _ => false
  end.

Fixpoint all_pairs (r : nat -> nat -> bool) (l : list nat) : bool :=
  match l with
  | [] => true
  | p :: rest => forallb (r p) rest && all_pairs r rest
  end.

(* some word is accepted from q: q is told apart from the empty language *)
Definition live (m : dfa) (q : nat) : bool :=
  match dfa_diff (with_init m q) (empty_m (d_syms m)) with
  | Ok (Some _) => true
  | _ => false
  end.

(* every state accessible, states pairwise distinguishable, and - for a DFA flagged partial
   with more than one state - no dead state *)
Definition is_minimal (m : dfa) : bool :=
  match reach_states m with
  | Ok r =>
    forallb (fun q => memb q r) (d_states m) &&
    all_pairs (distinguishable m) (d_states m) &&
    (negb (d_partial m) || Nat.eqb (length (d_states m)) 1 || forallb (live m) (d_states m))
  | Err _ => false
  end.

(* ---- bounded cross-check of a DFA against a boolean predicate: the first word over
        syms of length <= k (shortest first) on which they differ ---- *)
Fixpoint words_upto (syms : list nat) (k : nat) : list (list word) :=   (* levels 0..k *)
  match k with
  | 0 => [[[]]]
  | S k' =>
    match words_upto syms k' with
    | [] => []
    | top :: rest => flat_map (fun w => map (fun a => a :: w) syms) top :: top :: rest
    end
  end.

Definition first_diff (m : dfa) (pred : word -> bool) (k : nat) : option word :=
  find (fun w => negb (Bool.eqb (dfa_acc m w) (pred w))) (concat (rev (words_upto (d_syms m) k))).
