(* Property 0: shared comparator operations used by many checks. *)
From Coq Require Import List Arith NArith Bool.
From AV Require Import Base.Util Base.ITree Spec.Lang Spec.FA Model.Codec Model.Decide.
Import ListNotations.

Definition enc_diff (r : res (option word)) : itree := enc_res (enc_opt enc_nats) r.

(* op 1: [dfaA, dfaB]  -> [validA, validB, sizeA, sizeB, diff]
   op 2: [nfaA, nfaB]  -> [validA, validB, diff]
   op 3: [nfaA, dfaB]  -> [validA, validB, diff]
   op 4: [dfa, [w...]] -> [acc...]     op 5: [nfa, [w...]] -> [acc...] *)
Definition d00 (op : nat) (t : itree) : itree :=
  match op, t with
  | 0, _ => t
  | 1, L [ta; tb] =>
    match dec_dfa ta, dec_dfa tb with
    | Some a, Some b => L [Ib (valid_dfa a); Ib (valid_dfa b); In_ (size a); In_ (size b); enc_diff (dfa_diff a b)]
    | _, _ => bad_input
    end
  | 2, L [ta; tb] =>
    match dec_nfa ta, dec_nfa tb with
    | Some a, Some b => L [Ib (valid_nfa a); Ib (valid_nfa b); enc_diff (nfa_diff a b)]
    | _, _ => bad_input
    end
  | 3, L [ta; tb] =>
    match dec_nfa ta, dec_dfa tb with
    | Some a, Some b => L [Ib (valid_nfa a); Ib (valid_dfa b); enc_diff (nfa_dfa_diff a b)]
    | _, _ => bad_input
    end
  | 4, L [ta; tw] =>
    match dec_dfa ta, dec_list dec_word tw with
    | Some a, Some ws => enc_list Ib (map (dfa_acc a) ws)
    | _, _ => bad_input
    end
  | 5, L [ta; tw] =>
    match dec_nfa ta, dec_list dec_word tw with
    | Some a, Some ws => enc_list Ib (map (nfa_acc a) ws)
    | _, _ => bad_input
    end
  | _, _ => bad_input
  end.
