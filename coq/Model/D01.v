(* C01 dispatch: ops on (automaton, word) *)
From Coq Require Import List Arith NArith Bool.
From AV Require Import Base.Util Base.ITree Spec.Lang Spec.FA Model.Codec Model.FARun.
Import ListNotations.

(* op 1: DFA stepwise  [dfa, word] -> [yields, result]   with result = res (option state)
   op 2: NFA stepwise  [nfa, word] -> [yields, result]   with result = res (state set)
   op 3: valid_dfa, op 4: valid_nfa *)
Definition d01 (op : nat) (t : itree) : itree :=
  match op, t with
  | 1, L [tm; tw] =>
    match dec_dfa tm, dec_word tw with
    | Some m, Some w =>
      let (ys, o) := dfa_stepwise m w in
      L [enc_list enc_ostate ys; enc_res enc_ostate o; enc_res Ib (dfa_accepts m w)]
    | _, _ => bad_input
    end
  | 2, L [tm; tw] =>
    match dec_nfa tm, dec_word tw with
    | Some m, Some w =>
      let (ys, o) := nfa_stepwise m w in
      L [enc_list enc_nats ys; enc_res enc_nats o; enc_res Ib (nfa_accepts m w)]
    | _, _ => bad_input
    end
  | 3, tm => match dec_dfa tm with Some m => Ib (valid_dfa m) | None => bad_input end
  | 4, tm => match dec_nfa tm with Some m => Ib (valid_nfa m) | None => bad_input end
  | _, _ => bad_input
  end.
