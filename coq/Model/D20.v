(* C20 dispatch: a DFA definition and a call history -> the model's answers *)
From Coq Require Import List Arith NArith Bool.
From AV Require Import Base.Util Base.ITree Spec.Lang Spec.FA Model.Codec Model.Count Model.Cache Model.NFACache.
Import ListNotations.

(* query on the wire: [code, args...]
   1 count k | 2 words k | 3 words_prefix k n | 4 random k [draws] | 5 cardinality | 6 min | 7 max
   8 isempty | 9 isfinite | 10 iter n | 11 clear_cache *)
Definition dec_query (t : itree) : option query :=
  match t with
  | L (tc :: args) =>
    match dec_nat tc, args with
    | Some 1, [tk] => option_map QCount (dec_nat tk)
    | Some 2, [tk] => option_map QWords (dec_nat tk)
    | Some 3, [tk; tn] => match dec_nat tk, dec_nat tn with
                          | Some k, Some n => Some (QWordsPrefix k n) | _, _ => None end
    | Some 4, [tk; td] => match dec_nat tk, dec_list dec_N td with
                          | Some k, Some ds => Some (QRandom k ds) | _, _ => None end
    | Some 5, [] => Some QCard
    | Some 6, [] => Some QMin
    | Some 7, [] => Some QMax
    | Some 8, [] => Some QIsEmpty
    | Some 9, [] => Some QIsFinite
    | Some 10, [tn] => option_map QIter (dec_nat tn)
    | Some 11, [] => Some QClear
    | _, _ => None
    end
  | _ => None
  end.

Definition enc_words (l : list word) : itree := enc_list enc_nats l.

Definition enc_answer (a : answer) : itree :=
  match a with
  | ANum n => I n
  | AWords l => enc_words l
  | ARWord r => enc_res enc_nats r
  | ACard r => enc_res I r
  | AMin r => enc_res In_ r
  | AMax r => enc_res (enc_opt In_) r
  | ABool r => enc_res Ib r
  | AIter r => enc_res enc_words r
  | AUnit => L []
  end.

(* NFA queries on the wire: [code, args...], every query names the instance (index into the list of definitions)
   1 accepts_input [i, w] | 2 read_input_stepwise cut after n items [i, w, n] | 3 == [i, j]
   4 DFA.from_nfa [i, minify, retain_names] | 5 eliminate_lambda [i] | 6 reverse [i] *)
Definition dec_nquery (t : itree) : option nquery :=
  match t with
  | L (tc :: args) =>
    match dec_nat tc, args with
    | Some 1, [ti; tw] => match dec_nat ti, dec_word tw with
                          | Some i, Some w => Some (NAccepts i w) | _, _ => None end
    | Some 2, [ti; tw; tn] => match dec_nat ti, dec_word tw, dec_nat tn with
                              | Some i, Some w, Some n => Some (NStepwise i w n) | _, _, _ => None end
    | Some 3, [ti; tj] => match dec_nat ti, dec_nat tj with
                          | Some i, Some j => Some (NEq i j) | _, _ => None end
    | Some 4, [ti; tm; tr] => match dec_nat ti, dec_bool tm, dec_bool tr with
                              | Some i, Some mn, Some rn => Some (NFromNfa i mn rn) | _, _, _ => None end
    | Some 5, [ti] => option_map NElim (dec_nat ti)
    | Some 6, [ti] => option_map NReverse (dec_nat ti)
    | _, _ => None
    end
  | _ => None
  end.

(* answers: [1, bool] | [2, [sorted set...]] | [3, dfa] | [4, nfa] | [0, error code] | [9] no such instance *)
Definition enc_nanswer (a : nanswer) : itree :=
  match a with
  | NABool b => L [I 1%N; Ib b]
  | NASets l => L [I 2%N; enc_list enc_nats l]
  | NADfa d => L [I 3%N; enc_dfa d]
  | NANfa n => L [I 4%N; enc_nfa n]
  | NAErr e => L [I 0%N; In_ (err_code e)]
  | NABad => L [I 9%N]
  end.

(* op 1: [dfa (rows in the dict's iteration order), [query...]]
         -> [valid, answers along the history on one object, answers of the stateless models]
   op 2: [[nfa...], [nquery...]]
         -> [[valid...], answers along the history (one memo per instance, all empty at the start),
             answers with every closure table computed from scratch, answers of the C01/C09/C07/C08 models,
             the memos after the history ([] empty / [table]), which memos are filled after each query] *)
Definition d20 (op : nat) (t : itree) : itree :=
  match op, t with
  | 1, L [tm; tq] =>
    match dec_dfa tm, dec_list dec_query tq with
    | Some m, Some qs =>
      L [Ib (valid_dfa m); enc_list enc_answer (answers (init m) qs); enc_list enc_answer (map (pure m) qs)]
    | _, _ => bad_input
    end
  | 2, L [tms; tq] =>
    match dec_list dec_nfa tms, dec_list dec_nquery tq with
    | Some defs, Some qs =>
      L [enc_list Ib (map valid_nfa defs);
         enc_list enc_nanswer (nanswers defs (fresh_memos defs) qs);
         enc_list enc_nanswer (map (npure defs) qs);
         enc_list enc_nanswer (map (spec_answer defs) qs);
         enc_list (enc_opt (enc_list (enc_pair In_ enc_nats))) (nrun_history defs (fresh_memos defs) qs);
         enc_list (enc_list (fun c => Ib (match c with Some _ => true | None => false end)))
                  (nstates defs (fresh_memos defs) qs)]
    | _, _ => bad_input
    end
  | _, _ => bad_input
  end.
