(* C20 dispatch: a DFA definition and a call history -> the model's answers *)
From Coq Require Import List Arith NArith Bool.
From AV Require Import Base.Util Base.ITree Spec.Lang Spec.FA Model.Codec Model.Count Model.Cache.
Import ListNotations.

(* query on the wire: [code, args...]
   1 count k | 2 words k | 3 words_prefix k n | 4 random k [draws] | 5 cardinality | 6 min | 7 max
   8 isempty | 9 isfinite | 10 iter n | 11 clear_cache *)
Definition dec_query (t : itree) : option query :=
  match t with
  | L (tc :: args) =>
    match dec_nat tc, args with
    | Some 1, [tk] => option_map QCount (dec_nat tk)
    | Some 2, [tk] => option_map QWords (dec_nat tk)
    | Some 3, [tk; tn] => match dec_nat tk, dec_nat tn with
                          | Some k, Some n => Some (QWordsPrefix k n) | _, _ => None end
    | Some 4, [tk; td] => match dec_nat tk, dec_list dec_N td with
                          | Some k, Some ds => Some (QRandom k ds) | _, _ => None end
    | Some 5, [] => Some QCard
    | Some 6, [] => Some QMin
    | Some 7, [] => Some QMax
    | Some 8, [] => Some QIsEmpty
    | Some 9, [] => Some QIsFinite
    | Some 10, [tn] => option_map QIter (dec_nat tn)
    | Some 11, [] => Some QClear
    | _, _ => None
    end
  | _ => None
  end.

Definition enc_words (l : list word) : itree := enc_list enc_nats l.

Definition enc_answer (a : answer) : itree :=
  match a with
  | ANum n => I n
  | AWords l => enc_words l
  | ARWord r => enc_res enc_nats r
  | ACard r => enc_res I r
  | AMin r => enc_res In_ r
  | AMax r => enc_res (enc_opt In_) r
  | ABool r => enc_res Ib r
  | AIter r => enc_res enc_words r
  | AUnit => L []
  end.

(* op 1: [dfa (rows in the dict's iteration order), [query...]]
         -> [valid, answers along the history on one object, answers of the stateless models] *)
Definition d20 (op : nat) (t : itree) : itree :=
  match op, t with
  | 1, L [tm; tq] =>
    match dec_dfa tm, dec_list dec_query tq with
    | Some m, Some qs =>
      L [Ib (valid_dfa m); enc_list enc_answer (answers (init m) qs); enc_list enc_answer (map (pure m) qs)]
    | _, _ => bad_input
    end
  | _, _ => bad_input
  end.
