(* C19 - the Turing-machine records of Spec/TM.v (what the C03 / C17 theorems speak about)
   embedded in the raw record [rtm] of Model/Validate.v (what the constructors' validate()
   is modelled on).  The Spec records carry no state / symbol sets, so these are arguments:
   Q = states, I = input_symbols, T = tape_symbols.  Directions: 0 L, 1 R, 2 N (the wire codes of
   Model/D03.v and Model/D19.v).  The table shapes are those of the decoders of Model/D19.v:
   a DTM entry is a one-symbol key with one result of one move, an NTM entry a one-symbol key
   with a list of one-move results.  No proofs here. *)
From Coq Require Import List Arith Bool.
From AV Require Import Base.Util Spec.TM Model.Validate.
Import ListNotations.

Definition dcode (d : dir) : nat := match d with DL => 0 | DR => 1 | DN => 2 end.

Definition raw_act (a : act) : tresult := (fst (fst a), [(snd (fst a), dcode (snd a))]).

Definition raw_of_dtm (Q I T : list nat) (m : dtm) : rtm :=
  mkrtm Q I T
    (map (fun qr => (fst qr, map (fun sa => ([fst sa], [raw_act (snd sa)])) (snd qr))) (dt_trans m))
    (dt_init m) (dt_blank m) (dt_finals m).

Definition raw_of_ntm (Q I T : list nat) (m : ntm) : rtm :=
  mkrtm Q I T
    (map (fun qr => (fst qr, map (fun sa => ([fst sa], map raw_act (snd sa))) (snd qr))) (nt_trans m))
    (nt_init m) (nt_blank m) (nt_finals m).

Definition raw_alt (a : malt) : tresult := (fst a, map (fun mv => (fst mv, dcode (snd mv))) (snd a)).

Definition raw_of_mntm (Q I T : list nat) (m : mntm) : rtm :=
  mkrtm Q I T
    (map (fun qr => (fst qr, map (fun e => (fst e, map raw_alt (snd e))) (snd qr))) (mt_trans m))
    (mt_init m) (mt_blank m) (mt_finals m).

(* the side condition of the multitape embedding that valid_mntm / valid_tapes do not mention: every key
   has one component per tape (checked by _validate_tapes_consistency).  (An entry with an empty list of
   alternatives is accepted by the constructor and - since the repair of read_input_stepwise - is no longer
   excluded by valid_mntm either.) *)
Definition keys_len_ok (m : mntm) : bool :=
  forallb (fun qr : nat * list (list nat * list malt) =>
             forallb (fun e : list nat * list malt => Nat.eqb (length (fst e)) (mt_n m)) (snd qr))
          (mt_trans m).
