(* Line protocol:  <prop> <op> <tree>   ->   <tree>
   tree ::= digits | '[' tree (',' tree)* ']' | '[]' *)
open Model

let rec pos_of_int n = if n = 1 then XH else if n land 1 = 0 then XO (pos_of_int (n lsr 1)) else XI (pos_of_int (n lsr 1))
let n_of_int n = if n = 0 then N0 else Npos (pos_of_int n)
let rec int_of_pos = function XH -> 1 | XO p -> 2 * int_of_pos p | XI p -> 2 * int_of_pos p + 1
let int_of_n = function N0 -> 0 | Npos p -> int_of_pos p
let rec nat_of_int n = if n = 0 then O else S (nat_of_int (n - 1))

let parse (s : string) (pos : int ref) : itree =
  let len = String.length s in
  let rec tree () =
    if !pos >= len then failwith "eof";
    match s.[!pos] with
    | '[' ->
      incr pos;
      if !pos < len && s.[!pos] = ']' then (incr pos; L [])
      else begin
        let items = ref [tree ()] in
        while !pos < len && s.[!pos] = ',' do incr pos; items := tree () :: !items done;
        if !pos < len && s.[!pos] = ']' then (incr pos; L (List.rev !items)) else failwith "expected ]"
      end
    | '0' .. '9' ->
      let st = !pos in
      while !pos < len && s.[!pos] >= '0' && s.[!pos] <= '9' do incr pos done;
      I (n_of_int (int_of_string (String.sub s st (!pos - st))))
    | _ -> failwith "bad char"
  in
  tree ()

let rec print buf = function
  | I n -> Buffer.add_string buf (string_of_int (int_of_n n))
  | L l ->
    Buffer.add_char buf '[';
    List.iteri (fun i t -> if i > 0 then Buffer.add_char buf ','; print buf t) l;
    Buffer.add_char buf ']'

let () =
  try
    while true do
      let line = input_line stdin in
      (try
         let pos = ref 0 in
         let len = String.length line in
         let int_tok () =
           while !pos < len && line.[!pos] = ' ' do incr pos done;
           let st = !pos in
           while !pos < len && line.[!pos] <> ' ' do incr pos done;
           int_of_string (String.sub line st (!pos - st)) in
         let p = int_tok () in
         let o = int_tok () in
         while !pos < len && line.[!pos] = ' ' do incr pos done;
         let t = parse line pos in
         let r = dispatch (nat_of_int p) (nat_of_int o) t in
         let buf = Buffer.create 256 in
         print buf r;
         print_endline (Buffer.contents buf)
       with Failure m -> print_endline ("[0,98]") | Stack_overflow -> print_endline "[0,97]")
    done
  with End_of_file -> ()
