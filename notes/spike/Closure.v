From Coq Require Import List Arith Bool Lia.
Import ListNotations.

Section Closure.
  Variable A : Type.
  Variable eqb : A -> A -> bool.
  Hypothesis eqb_spec : forall x y, eqb x y = true <-> x = y.
  Variable succ : A -> list A.

  Definition mem (x : A) (l : list A) : bool := existsb (eqb x) l.

  Lemma mem_In x l : mem x l = true <-> In x l.
  Proof.
    unfold mem. rewrite existsb_exists. split.
    - intros [y [Hy He]]. apply eqb_spec in He. subst. exact Hy.
    - intros H. exists x. split; [exact H | apply eqb_spec; reflexivity].
  Qed.

  (* worklist: todo, visited.  Every element of todo is already in visited. *)
  Fixpoint bfs (fuel : nat) (todo visited : list A) : option (list A) :=
    match todo with
    | [] => Some visited
    | x :: rest =>
      match fuel with
      | 0 => None
      | S f =>
        let new := fold_right (fun y acc => if mem y visited || mem y acc then acc else y :: acc)
                              [] (succ x) in
        bfs f (rest ++ new) (visited ++ new)
      end
    end.

  Inductive reach (S0 : list A) : A -> Prop :=
  | reach_init x : In x S0 -> reach S0 x
  | reach_step x y : reach S0 x -> In y (succ x) -> reach S0 y.

  Definition newof (visited : list A) (l : list A) :=
    fold_right (fun y acc => if mem y visited || mem y acc then acc else y :: acc) [] l.

  Lemma newof_In visited l y : In y (newof visited l) -> In y l /\ ~ In y visited.
  Proof.
    induction l as [|a l IH]; simpl; [tauto|].
    destruct (mem a visited || mem a (newof visited l)) eqn:E.
    - intros H. destruct (IH H). tauto.
    - intros [H|H].
      + subst. apply orb_false_iff in E. destruct E as [E _].
        split; [tauto|]. intro Hin. apply mem_In in Hin. congruence.
      + destruct (IH H). tauto.
  Qed.

  Lemma newof_complete visited l y : In y l -> In y visited \/ In y (newof visited l).
  Proof.
    induction l as [|a l IH]; simpl; [tauto|].
    intros [H|H].
    - subst. destruct (mem y visited) eqn:E1; simpl.
      + left. apply mem_In. exact E1.
      + destruct (mem y (newof visited l)) eqn:E2.
        * right. apply mem_In. exact E2.
        * right. left. reflexivity.
    - destruct (IH H) as [H1|H1]; [tauto|].
      destruct (mem a visited || mem a (newof visited l)); [tauto|]. right. right. exact H1.
  Qed.

  (* soundness *)
  Lemma bfs_sound S0 fuel : forall todo visited res,
      (forall x, In x visited -> reach S0 x) ->
      (forall x, In x todo -> In x visited) ->
      bfs fuel todo visited = Some res ->
      forall x, In x res -> reach S0 x.
  Proof.
    induction fuel as [|f IH]; intros todo visited res Hv Ht Hb x Hx.
    - destruct todo; simpl in Hb; [|discriminate]. inversion Hb; subst. auto.
    - destruct todo as [|t rest]; simpl in Hb.
      + inversion Hb; subst. auto.
      + fold (newof visited (succ t)) in Hb.
        eapply IH; [| |exact Hb|exact Hx].
        * intros y Hy. apply in_app_or in Hy. destruct Hy as [Hy|Hy]; [auto|].
          apply newof_In in Hy. destruct Hy as [Hy _].
          eapply reach_step; [|exact Hy]. apply Hv. apply Ht. left. reflexivity.
        * intros y Hy. apply in_app_or in Hy. apply in_or_app.
          destruct Hy as [Hy|Hy]; [left; apply Ht; right; exact Hy | right; exact Hy].
  Qed.

  (* completeness: result is closed and contains the initial visited set *)
  Lemma bfs_closed fuel : forall todo visited res,
      (forall x, In x todo -> In x visited) ->
      (forall x y, In x visited -> ~ In x todo -> In y (succ x) -> In y visited) ->
      bfs fuel todo visited = Some res ->
      (forall x, In x visited -> In x res) /\
      (forall x y, In x res -> In y (succ x) -> In y res).
  Proof.
    induction fuel as [|f IH]; intros todo visited res Ht Hc Hb.
    - destruct todo; simpl in Hb; [|discriminate]. inversion Hb; subst.
      split; [auto|]. intros x y Hx Hy. eapply Hc; eauto.
    - destruct todo as [|t rest]; simpl in Hb.
      + inversion Hb; subst. split; [auto|]. intros x y Hx Hy. eapply Hc; eauto.
      + fold (newof visited (succ t)) in Hb.
        apply IH in Hb.
        * destruct Hb as [H1 H2]. split; [|exact H2].
          intros x Hx. apply H1. apply in_or_app. left. exact Hx.
        * intros y Hy. apply in_app_or in Hy. apply in_or_app.
          destruct Hy as [Hy|Hy]; [left; apply Ht; right; exact Hy | right; exact Hy].
        * intros x y Hx Hnt Hy.
          apply in_or_app.
          apply in_app_or in Hx. destruct Hx as [Hx|Hx].
          -- (* x already visited *)
             destruct (eqb x t) eqn:Ext.
             ++ apply eqb_spec in Ext. subst x.
                destruct (newof_complete visited (succ t) y Hy); tauto.
             ++ left. eapply Hc; [exact Hx| |exact Hy].
                intros [Heq|Hin].
                ** subst. assert (eqb x x = true) by (apply eqb_spec; reflexivity). congruence.
                ** apply Hnt. apply in_or_app. left. exact Hin.
          -- exfalso. apply Hnt. apply in_or_app. right. exact Hx.
  Qed.
End Closure.
