From Coq Require Import List Arith Bool Lia.
Import ListNotations.

Section LowerBound.
  (* two complete DFAs given by total step functions on nat states *)
  Variable d1 d2 : nat -> nat -> nat.
  Variable i1 i2 : nat.
  Variable f1 f2 : nat -> bool.
  Variable Q2 : list nat.                   (* state set of the second automaton *)
  Hypothesis Q2_init : In i2 Q2.
  Hypothesis Q2_closed : forall q a, In q Q2 -> In (d2 q a) Q2.

  Fixpoint run (d : nat -> nat -> nat) (q : nat) (w : list nat) : nat :=
    match w with [] => q | a :: r => run d (d q a) r end.

  Lemma run_app d q u v : run d q (u ++ v) = run d (run d q u) v.
  Proof. revert q; induction u as [|a u IH]; intro q; simpl; [reflexivity|apply IH]. Qed.

  Lemma run_in_Q2 w : forall q, In q Q2 -> In (run d2 q w) Q2.
  Proof. induction w as [|a w IH]; intros q H; simpl; [exact H|]. apply IH. apply Q2_closed. exact H. Qed.

  Hypothesis same_lang : forall w, f1 (run d1 i1 w) = f2 (run d2 i2 w).

  (* S : states of automaton 1, each with an access word, pairwise distinguishable *)
  Variable S : list nat.
  Variable acc : nat -> list nat.
  Hypothesis S_nodup : NoDup S.
  Hypothesis acc_ok : forall s, In s S -> run d1 i1 (acc s) = s.
  Hypothesis dist : forall s t, In s S -> In t S -> s <> t ->
                     exists w, f1 (run d1 s w) <> f1 (run d1 t w).

  Definition img (s : nat) : nat := run d2 i2 (acc s).

  Lemma img_inj s t : In s S -> In t S -> img s = img t -> s = t.
  Proof.
    intros Hs Ht Heq.
    destruct (Nat.eq_dec s t) as [E|N]; [exact E|exfalso].
    destruct (dist s t Hs Ht N) as [w Hw]. apply Hw.
    rewrite <- (acc_ok s Hs) at 1. rewrite <- (acc_ok t Ht) at 1.
    rewrite <- !run_app. rewrite !same_lang. rewrite !run_app.
    unfold img in Heq. rewrite Heq. reflexivity.
  Qed.

  Lemma NoDup_map_inj (l : list nat) (g : nat -> nat) :
    NoDup l -> (forall x y, In x l -> In y l -> g x = g y -> x = y) -> NoDup (map g l).
  Proof.
    induction l as [|a l IH]; intros Hn Hinj; simpl; [constructor|].
    inversion Hn; subst. constructor.
    - intro H. apply in_map_iff in H. destruct H as [x [Hx Hin]].
      assert (x = a) by (apply Hinj; [right; exact Hin|left; reflexivity|exact Hx]). subst. tauto.
    - apply IH; [assumption|]. intros x y Hx Hy. apply Hinj; right; assumption.
  Qed.

  Theorem nerode_lower_bound : length S <= length Q2.
  Proof.
    rewrite <- (map_length img S).
    apply NoDup_incl_length.
    - apply NoDup_map_inj; [exact S_nodup|]. intros x y Hx Hy. apply img_inj; assumption.
    - intros y Hy. apply in_map_iff in Hy. destruct Hy as [s [Hs _]]. subst.
      unfold img. apply run_in_Q2. exact Q2_init.
  Qed.
End LowerBound.
Print Assumptions nerode_lower_bound.
