From Coq Require Import List Arith Bool Lia.
Import ListNotations.
Load Closure.
Section Fuel.
  Variable A : Type.
  Variable eqb : A -> A -> bool.
  Hypothesis eqb_spec : forall x y, eqb x y = true <-> x = y.
  Variable succ : A -> list A.
  Variable U : list A.
  Hypothesis succ_in_U : forall x y, In x U -> In y (succ x) -> In y U.

  Lemma newof_NoDup visited l : NoDup (newof A eqb visited l).
  Proof.
    induction l as [|a l IH]; simpl; [constructor|].
    destruct (mem A eqb a visited || mem A eqb a (newof A eqb visited l)) eqn:E; [exact IH|].
    constructor; [|exact IH].
    apply orb_false_iff in E. destruct E as [_ E]. intro H.
    apply (mem_In A eqb eqb_spec) in H. congruence.
  Qed.

  Lemma NoDup_app_disjoint (l m : list A) :
    NoDup l -> NoDup m -> (forall y, In y m -> ~ In y l) -> NoDup (l ++ m).
  Proof.
    intros Hl Hm Hd. induction l as [|a l IHl]; simpl; [exact Hm|].
    inversion Hl; subst. constructor.
    - intro H. apply in_app_or in H. destruct H as [H|H]; [tauto|].
      apply (Hd a H). left. reflexivity.
    - apply IHl; [assumption|]. intros y Hy Hin. apply (Hd y Hy). right. exact Hin.
  Qed.

  Lemma bfs_fuel : forall fuel todo processed,
      NoDup (processed ++ todo) -> incl (processed ++ todo) U ->
      length U < length processed + fuel ->
      bfs A eqb succ fuel todo (processed ++ todo) <> None.
  Proof.
    induction fuel as [|f IH]; intros todo processed Hnd Hin Hlen.
    - destruct todo as [|t rest]; simpl; [discriminate|].
      exfalso. pose proof (NoDup_incl_length Hnd Hin) as H. rewrite app_length in H. simpl in H. lia.
    - destruct todo as [|t rest]; simpl; [discriminate|].
      fold (newof A eqb (processed ++ t :: rest) (succ t)).
      set (new := newof A eqb (processed ++ t :: rest) (succ t)).
      replace ((processed ++ t :: rest) ++ new) with ((processed ++ [t]) ++ (rest ++ new))
        by (rewrite <- !app_assoc; reflexivity).
      apply IH.
      + replace ((processed ++ [t]) ++ rest ++ new) with ((processed ++ t :: rest) ++ new)
          by (rewrite <- !app_assoc; reflexivity).
        (* NoDup of visited ++ new *)
        assert (Hn : NoDup new) by apply newof_NoDup.
        assert (Hd : forall y, In y new -> ~ In y (processed ++ t :: rest)).
        { intros y Hy. unfold new in Hy. apply (newof_In A eqb eqb_spec succ) in Hy. destruct Hy as [_ Hy]. exact Hy. }
        apply NoDup_app_disjoint; assumption.
      + replace ((processed ++ [t]) ++ rest ++ new) with ((processed ++ t :: rest) ++ new)
          by (rewrite <- !app_assoc; reflexivity).
        intros y Hy. apply in_app_or in Hy. destruct Hy as [Hy|Hy]; [apply Hin; exact Hy|].
        apply (newof_In A eqb eqb_spec succ) in Hy. destruct Hy as [Hy _].
        eapply succ_in_U; [|exact Hy]. apply Hin. apply in_or_app. right. left. reflexivity.
      + rewrite app_length. simpl. lia.
  Qed.
End Fuel.
