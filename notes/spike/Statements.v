From Coq Require Import List Arith Bool Lia NArith.
Import ListNotations.

(* ---------- Spec/Lang.v ---------- *)
Definition word := list nat.
Definition lang := word -> Prop.
Definition lang_eq (L1 L2 : lang) : Prop := forall w, L1 w <-> L2 w.
Infix "=L" := lang_eq (at level 70).
Definition l_union (A B : lang) : lang := fun w => A w \/ B w.
Definition l_inter (A B : lang) : lang := fun w => A w /\ B w.
Definition l_diff  (A B : lang) : lang := fun w => A w /\ ~ B w.
Definition l_cat   (A B : lang) : lang := fun w => exists u v, w = u ++ v /\ A u /\ B v.
Inductive l_star (A : lang) : lang :=
| star_nil : l_star A []
| star_app u v : A u -> l_star A v -> l_star A (u ++ v).
Definition l_rev (A : lang) : lang := fun w => A (rev w).
Definition l_rquot (A B : lang) : lang := fun w => exists v, B v /\ A (w ++ v).
Definition l_lquot (A B : lang) : lang := fun w => exists u, B u /\ A (u ++ w).
Inductive shuffle : word -> word -> word -> Prop :=
| sh_nil : shuffle [] [] []
| sh_l a u v w : shuffle u v w -> shuffle (a :: u) v (a :: w)
| sh_r a u v w : shuffle u v w -> shuffle u (a :: v) (a :: w).
Definition l_shuffle (A B : lang) : lang := fun w => exists u v, A u /\ B v /\ shuffle u v w.

(* ---------- Spec/FA.v ---------- *)
Record dfa := { d_states : list nat; d_syms : list nat;
                d_trans : list (nat * list (nat * nat));   (* state -> row (sym -> target) *)
                d_init : nat; d_finals : list nat; d_partial : bool }.
Fixpoint assoc {B} (k : nat) (l : list (nat * B)) : option B :=
  match l with [] => None | (k', v) :: r => if Nat.eqb k k' then Some v else assoc k r end.
Definition d_delta (m : dfa) (q a : nat) : option nat :=
  match assoc q (d_trans m) with Some row => assoc a row | None => None end.
Fixpoint dfa_run (m : dfa) (q : option nat) (w : word) : option nat :=
  match w with [] => q | a :: r => dfa_run m (match q with Some s => d_delta m s a | None => None end) r end.
Definition memb (x : nat) (l : list nat) := existsb (Nat.eqb x) l.
Definition dfa_acc (m : dfa) (w : word) : bool :=
  match dfa_run m (Some (d_init m)) w with Some q => memb q (d_finals m) | None => false end.
Definition L_dfa (m : dfa) : lang := fun w => dfa_acc m w = true.

Record nfa := { n_states : list nat; n_syms : list nat;
                n_trans : list (nat * list (option nat * list nat));  (* None = epsilon *)
                n_init : nat; n_finals : list nat }.
Definition lbl_eqb (x y : option nat) : bool :=
  match x, y with None, None => true | Some a, Some b => Nat.eqb a b | _, _ => false end.
Fixpoint assoc_lbl {B} (k : option nat) (l : list (option nat * B)) : option B :=
  match l with [] => None | (k', v) :: r => if lbl_eqb k k' then Some v else assoc_lbl k r end.
Definition n_edge (m : nfa) (p : nat) (lbl : option nat) (q : nat) : Prop :=
  exists row tgts, assoc p (n_trans m) = Some row /\ assoc_lbl lbl row = Some tgts /\ In q tgts.
Inductive nfa_path (m : nfa) : nat -> word -> nat -> Prop :=
| np_refl q : nfa_path m q [] q
| np_eps p q r w : n_edge m p None q -> nfa_path m q w r -> nfa_path m p w r
| np_sym p a q r w : n_edge m p (Some a) q -> nfa_path m q w r -> nfa_path m p (a :: w) r.
Definition L_nfa (m : nfa) : lang := fun w => exists q, nfa_path m (n_init m) w q /\ In q (n_finals m).

(* ---------- Spec/Minimal.v ---------- *)
Definition complete (m : dfa) : Prop :=
  forall q a, In q (d_states m) -> In a (d_syms m) -> exists q', d_delta m q a = Some q' .
Definition size (m : dfa) := length (d_states m).
Definition minimal_complete (m : dfa) : Prop :=
  forall m', complete m' -> d_syms m' = d_syms m -> L_dfa m' =L L_dfa m -> size m <= size m'.
Definition minimal_partial (m : dfa) : Prop :=
  forall m', d_syms m' = d_syms m -> L_dfa m' =L L_dfa m -> size m <= size m'.

(* ---------- headline statements (as Props; proofs live in Proofs/) ---------- *)
Section Statements.
  Variable valid_dfa : dfa -> bool.            (* Model/Validate.v *)
  Variable valid_nfa : nfa -> bool.
  Inductive res (A : Type) := Ok (a : A) | Err (k : nat).
  Arguments Ok {A}. Arguments Err {A}.
  Variable union_m inter_m diff_m sdiff_m : dfa -> dfa -> bool -> bool -> res dfa.  (* retain, minify *)
  Variable minify_m : dfa -> bool -> res dfa.
  Variable dfa_diff : dfa -> dfa -> option word.
  Variable determinize_m : nfa -> bool -> bool -> res dfa.
  Variable cnt : dfa -> nat -> N.
  Variable wl : dfa -> nat -> list word.
  Variable all_words : list nat -> nat -> list word.

  Definition C04_union_statement : Prop :=
    forall A B rn mn, valid_dfa A = true -> valid_dfa B = true -> d_syms A = d_syms B ->
      exists R, union_m A B rn mn = Ok R /\ valid_dfa R = true /\
                L_dfa R =L l_union (L_dfa A) (L_dfa B).
  Definition C05_statement : Prop :=
    forall A rn, valid_dfa A = true ->
      exists R, minify_m A rn = Ok R /\ valid_dfa R = true /\ L_dfa R =L L_dfa A /\
                (complete R -> minimal_complete R) /\ (~ complete R -> minimal_partial R).
  Definition C06_eq_statement : Prop :=
    forall A B, valid_dfa A = true -> valid_dfa B = true -> d_syms A = d_syms B ->
      (dfa_diff A B = None <-> L_dfa A =L L_dfa B) /\
      (forall w, dfa_diff A B = Some w -> dfa_acc A w <> dfa_acc B w).
  Definition C07_det_statement : Prop :=
    forall N rn mn, valid_nfa N = true ->
      exists D, determinize_m N rn mn = Ok D /\ valid_dfa D = true /\ L_dfa D =L L_nfa N.
  Definition C13_words_statement : Prop :=
    forall A k, valid_dfa A = true ->
      wl A k = filter (dfa_acc A) (all_words (d_syms A) k) /\
      cnt A k = N.of_nat (length (wl A k)).
End Statements.
