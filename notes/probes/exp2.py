import traceback, itertools, random
from automata.fa.dfa import DFA
from automata.fa.nfa import NFA
from automata.fa.gnfa import GNFA
from automata.pda.dpda import DPDA
from automata.pda.npda import NPDA
from automata.tm.mntm import MNTM
from automata.tm.dtm import DTM
from automata.tm.ntm import NTM
import automata.regex.regex as rx
def t(name, f):
    try:
        print(name, '=>', f())
    except Exception as e:
        print(name, 'RAISED', type(e).__name__, e)

# C08 left quotient
a = NFA(states={0,1}, input_symbols={'a'}, transitions={0:{'a':{1}},1:{}}, initial_state=0, final_states={1})
b = NFA(states={0}, input_symbols={'b'}, transitions={0:{}}, initial_state=0, final_states=set())
t('left_quotient degenerate', lambda: a.left_quotient(b))
t('right_quotient degenerate', lambda: a.right_quotient(b))
t('intersection degenerate', lambda: a.intersection(b))
t('shuffle degenerate', lambda: a.shuffle_product(b))
t('union', lambda: a.union(b))
t('concat', lambda: a.concatenate(b))
t('star b', lambda: b.kleene_star().accepts_input(''))
t('reverse b', lambda: b.reverse())
# C12 gnfa
n = NFA(states={0,1,2}, input_symbols={'a'}, transitions={0:{'':{1}, 'a':{2}},1:{'':{2}},2:{}}, initial_state=0, final_states={2})
t('gnfa regex', lambda: GNFA.from_nfa(n).to_regex())
n2 = NFA(states={0,1,2}, input_symbols={'a'}, transitions={0:{'':{1,2}},1:{'':{2}},2:{'a':{2}}}, initial_state=0, final_states={2})
t('gnfa regex2', lambda: GNFA.from_nfa(n2).to_regex())
# C02 DPDA vs NPDA on accepting start config with lambda
dp = dict(states={'q0','q1'}, input_symbols={'a'}, stack_symbols={'Z'}, initial_state='q0', initial_stack_symbol='Z', final_states={'q0'}, acceptance_mode='final_state')
d = DPDA(transitions={'q0':{'':{'Z':('q1',('Z',))}}}, **dp)
np_ = NPDA(transitions={'q0':{'':{'Z':{('q1',('Z',))}}}}, **dp)
t('dpda ""', lambda: d.accepts_input(''))
t('npda ""', lambda: np_.accepts_input(''))
