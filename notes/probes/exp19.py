import itertools, random
from automata.fa.dfa import DFA
from automata.fa.nfa import NFA
import automata.base.exceptions as ex
random.seed(12)
def rand_dfa(n, syms, partial):
    states=list(range(n)); tr={}
    for s in states:
        tr[s]={}
        for a in syms:
            if partial and random.random()<0.4: continue
            tr[s][a]=random.choice(states)
    fin={s for s in states if random.random()<0.4}
    return dict(states=set(states), input_symbols=set(syms), transitions=tr, initial_state=states[0], final_states=fin, allow_partial=partial)
def q(d, op):
    k,arg=op
    try:
        if k=='count': return d.count_words_of_length(arg)
        if k=='words': return list(d.words_of_length(arg))
        if k=='wordsp':
            g=d.words_of_length(arg[0]); return list(itertools.islice(g,arg[1]))
        if k=='rand': return d.random_word(arg[0],seed=arg[1])
        if k=='card': return d.cardinality()
        if k=='min': return d.minimum_word_length()
        if k=='max': return d.maximum_word_length()
        if k=='empty': return d.isempty()
        if k=='fin': return d.isfinite()
        if k=='iter': return list(itertools.islice(iter(d),arg))
        if k=='succ': return list(itertools.islice(d.successors(arg[0],max_length=arg[1]),arg[2]))
        if k=='acc': return d.accepts_input(arg)
        if k=='clear': d.clear_cache(); return None
        if k=='eq': return d==d.copy()
        if k=='minify': return len(d.minify().states)
    except Exception as e: return ('EXC',type(e).__name__)
def rop():
    k=random.choice(['count','words','wordsp','rand','card','min','max','empty','fin','iter','succ','acc','clear','eq','minify'])
    if k in('count','words'): return (k,random.randint(0,6))
    if k=='wordsp': return (k,(random.randint(0,6),random.randint(0,3)))
    if k=='rand': return (k,(random.randint(0,6),random.randint(0,5)))
    if k=='iter': return (k,random.randint(0,6))
    if k=='succ': return (k,(random.choice(['','a','ab',None]),random.randint(0,5),random.randint(0,4)))
    if k=='acc': return (k,''.join(random.choice('ab') for _ in range(random.randint(0,5))))
    return (k,None)
bad=0
for it in range(3000):
    kw=rand_dfa(random.randint(1,4),'ab',random.random()<0.5)
    d=DFA(**kw); ops=[rop() for _ in range(random.randint(1,10))]
    for i,op in enumerate(ops):
        got=q(d,op); fresh=q(DFA(**kw),op)
        if got!=fresh:
            bad+=1
            if bad<4: print('BAD',kw,ops[:i+1],got,fresh)
print('bad',bad)
