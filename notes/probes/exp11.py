import itertools, random
from automata.fa.dfa import DFA
from automata.fa.nfa import NFA
from automata.fa.gnfa import GNFA
import automata.regex.regex as rx
import automata.base.exceptions as ex
from collections import Counter
random.seed(8)
def words(syms, L):
    for k in range(L+1):
        for w in itertools.product(syms, repeat=k):
            yield ''.join(w)
SY='ab'; L=6; W=list(words(SY,L)); WS=frozenset(W)
def cut(S): return frozenset(w for w in S if len(w)<=L)
def cat(A,B): return frozenset(u+v for u in A for v in B if len(u)+len(v)<=L)
def shuf(u,v):
    if not u: return {v}
    if not v: return {u}
    return {u[0]+w for w in shuf(u[1:],v)}|{v[0]+w for w in shuf(u,v[1:])}
def rep(A,lo,hi):
    # hi None = unbounded
    res=set(); P=frozenset({''}); i=0
    seen=set()
    while True:
        if i>=lo: res|=P
        if hi is not None and i>=hi: break
        if hi is None and i>=lo+L+1: break
        P=cat(P,A); i+=1
        if not P and i>=lo: break
        if i>40: break
    return frozenset(res)
# random AST -> (string, language)
def gen(d):
    r=random.random()
    if d==0 or r<0.25:
        c=random.choice(['a','b','.','()','a','b'])
        if c=='.': return '.',frozenset(SY),3
        if c=='()': return '()',frozenset({''}),3
        return c,frozenset({c}),3
    if r<0.45:
        s1,l1,p1=gen(d-1); s2,l2,p2=gen(d-1)
        if p1<2: s1='('+s1+')'
        if p2<2: s2='('+s2+')'
        return s1+s2,cat(l1,l2),2
    if r<0.7:
        op=random.choice('|&^')
        s1,l1,p1=gen(d-1); s2,l2,p2=gen(d-1)
        if p2<=1: s2='('+s2+')'   # left assoc: right operand must be parenthesized if prec1
        if op=='|': l=l1|l2
        elif op=='&': l=l1&l2
        else: l=frozenset(w for u in l1 for v in l2 if len(u)+len(v)<=L for w in shuf(u,v))
        return s1+op+s2,l,1
    s1,l1,p1=gen(d-1)
    if p1<3: s1='('+s1+')'
    q=random.choice(['*','+','?','{m,n}','{m,}','{,n}'])
    if q=='*': return s1+'*',rep(l1,0,None),3
    if q=='+': return s1+'+',rep(l1,1,None),3
    if q=='?': return s1+'?',rep(l1,0,1),3
    m=random.randint(0,2); n=m+random.randint(0,2)
    if q=='{m,n}': return s1+'{%d,%d}'%(m,n),rep(l1,m,n),3
    if q=='{m,}': return s1+'{%d,}'%m,rep(l1,m,None),3
    return s1+'{,%d}'%n,rep(l1,0,n),3
bad=Counter(); shown=Counter()
def report(kind,*a):
    bad[kind]+=1
    if shown[kind]<4: shown[kind]+=1; print('BAD',kind,*[str(x)[:300] for x in a])
for it in range(3000):
    s,l,p=gen(3)
    try:
        N=NFA.from_regex(s,input_symbols=set(SY)); N.validate()
    except Exception as e: report('exc',type(e).__name__,e,s); continue
    got=frozenset(w for w in W if N.accepts_input(w))
    if got!=l:
        kind='quant0' if ',0}' in s else 'lang'
        report(kind,s,sorted(got^l)[:5])
    # blanks/parens
    s2='( '+s.replace('|',' | ')+' )'
    try:
        N2=NFA.from_regex(s2,input_symbols=set(SY))
        if frozenset(w for w in W if N2.accepts_input(w))!=got: report('paren-blank',s,s2)
    except Exception as e: report('exc2',type(e).__name__,e,s2)
print(dict(bad))
