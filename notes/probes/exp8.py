import itertools, random
from automata.fa.dfa import DFA
from collections import Counter
import automata.base.exceptions as ex
random.seed(5)
def words(syms, L):
    for k in range(L+1):
        for w in itertools.product(syms, repeat=k):
            yield ''.join(w)
def rand_dfa(n, syms, partial):
    states=list(range(n)); tr={}
    for s in states:
        tr[s]={}
        for a in syms:
            if partial and random.random()<0.4: continue
            tr[s][a]=random.choice(states)
    fin={s for s in states if random.random()<0.4}
    return DFA(states=set(states), input_symbols=set(syms), transitions=tr, initial_state=states[0], final_states=fin, allow_partial=partial)
W7=list(words('ab',8))
cat=Counter(); ex1={}
for it in range(1500):
    A=rand_dfa(random.randint(1,4),'ab',random.random()<0.6)
    LA=[w for w in W7 if A.accepts_input(w)]
    n=len(A.states)
    infinite = any(n<=len(w)<2*n for w in LA)
    if infinite: continue
    for start in ['','a','b','ab','ba','bb','aab']:
        for strict in (True,False):
            for (mnl,mxl) in [(0,4),(1,3),(2,2),(0,None)]:
                cand=[w for w in LA if mnl<=len(w) and (mxl is None or len(w)<=mxl)]
                expp=sorted((w for w in cand if (w<start or (not strict and w==start))),reverse=True)
                try:
                    got=list(A.predecessors(start,strict=strict,min_length=mnl,max_length=mxl))
                    if got!=expp:
                        k=('start-empty' if start=='' else 'start-nonempty', 'exp-has-eps' if '' in expp else 'no-eps', 'missing-only-eps' if got==[w for w in expp if w!=''] else 'other', 'maxlen<len(start)' if mxl is not None and mxl<len(start) else '')
                        cat[k]+=1; ex1.setdefault(k,(A,start,strict,mnl,mxl,got,expp))
                except ex.InfiniteLanguageException: cat['I']+=1
                except Exception as e:
                    k=('exc',type(e).__name__,start=='')
                    cat[k]+=1; ex1.setdefault(k,(A,start,strict,mnl,mxl))
for k,v in cat.items(): print(k,v,'\n   ',ex1.get(k))
