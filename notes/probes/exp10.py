import itertools, random
from automata.fa.dfa import DFA
def words(syms, L):
    for k in range(L+1):
        for w in itertools.product(syms, repeat=k):
            yield ''.join(w)
random.seed(7)
S={'a','b'}; W=list(words('ab',7)); pats=list(words('ab',3))
n=0; bad=[]
for _ in range(3000):
    ps=set(random.sample(pats, random.randint(1,3)))
    for c in (True,False):
        D=DFA.from_substrings(S,ps,must_be_suffix=True,contains=c)
        for w in W:
            if D.accepts_input(w)!=(any(w.endswith(p) for p in ps)==c):
                bad.append((ps,c,w)); break
print(len(bad)); 
print([b for b in bad if '' not in b[0]][:5]); print(bad[:3])
