import itertools, random
import automata.base.config as cfg
from automata.fa.dfa import DFA
from automata.fa.nfa import NFA
from automata.fa.gnfa import GNFA
from collections import Counter
def words(syms, L):
    for k in range(L+1):
        for w in itertools.product(syms, repeat=k):
            yield ''.join(w)
W=list(words('ab',6))
def mk_dfa(rs, n, partial):
    states=list(range(n)); tr={}
    for s in states:
        tr[s]={}
        for a in 'ab':
            if partial and rs.random()<0.35: continue
            tr[s][a]=rs.choice(states)
    fin={s for s in states if rs.random()<0.4}
    return dict(states=set(states), input_symbols={'a','b'}, transitions=tr, initial_state=0, final_states=fin, allow_partial=partial)
def mk_nfa(rs,n):
    states=list(range(n)); tr={}
    for s in states:
        tr[s]={}
        for a in ['a','b','']:
            if rs.random()<0.5: continue
            tr[s][a]=set(rs.sample(states,min(rs.choice([0,1,2]),n)))
    fin={s for s in states if rs.random()<0.4}
    return dict(states=set(states), input_symbols={'a','b'}, transitions=tr, initial_state=0, final_states=fin)
def lang(x): return tuple(w for w in W if x.accepts_input(w))
bad=Counter()
def battery(seed):
    rs=random.Random(seed)
    out=[]
    A=DFA(**mk_dfa(rs,rs.randint(1,4),rs.random()<0.5)); B=DFA(**mk_dfa(rs,rs.randint(1,4),rs.random()<0.5))
    N=NFA(**mk_nfa(rs,rs.randint(1,3))); M=NFA(**mk_nfa(rs,rs.randint(1,3)))
    def rec(name,f):
        try:
            r=f()
            if isinstance(r,(DFA,NFA)):
                r.validate(); out.append((name,lang(r),len(r.states)))
            elif isinstance(r,GNFA): r.validate(); out.append((name,'gnfa'))
            else: out.append((name,r))
        except Exception as e: out.append((name,'EXC',type(e).__name__))
    for nm in ['union','intersection','difference','symmetric_difference']:
        for mn in (True,False):
            rec(nm+str(mn),lambda: getattr(A,nm)(B,minify=mn))
    rec('compl',lambda:A.complement()); rec('complF',lambda:A.complement(minify=False)); rec('minify',lambda:A.minify()); rec('minifyR',lambda:A.minify(retain_names=True))
    rec('topart',lambda:A.to_partial(minify=False)); rec('tocomp',lambda:A.to_complete())
    rec('eq',lambda:A==B); rec('le',lambda:A<=B); rec('disj',lambda:A.isdisjoint(B)); rec('empty',lambda:A.isempty()); rec('fin',lambda:A.isfinite())
    rec('cnt',lambda:[A.count_words_of_length(k) for k in range(5)]); rec('wl',lambda:list(A.words_of_length(3)))
    rec('succ',lambda:list(A.successors('a',max_length=4)))
    rec('fromnfa',lambda:DFA.from_nfa(N)); rec('fromnfaR',lambda:DFA.from_nfa(N,retain_names=True,minify=False)); rec('fromdfa',lambda:NFA.from_dfa(A)); rec('elim',lambda:N.eliminate_lambda())
    for nm in ['union','concatenate','intersection','shuffle_product','right_quotient','left_quotient']:
        rec('n'+nm,lambda:getattr(N,nm)(M))
    for nm in ['kleene_star','option','reverse']: rec('n'+nm,lambda:getattr(N,nm)())
    rec('neq',lambda:N==M)
    rec('gnfa',lambda:GNFA.from_nfa(N)); rec('gnfad',lambda:GNFA.from_dfa(A)); 
    rec('regex',lambda:lang(NFA.from_regex('(a|b)*a{1,2}&(ab)*a',input_symbols={'a','b'})))
    rec('ed',lambda:lang(NFA.edit_distance({'a','b'},'ab',1)))
    rec('fl',lambda:DFA.from_finite_language({'a','b'},{'ab','b',''}))
    rec('cm',lambda:DFA.count_mod({'a','b'},3,remainders={1}))
    return out
res={}
for v,m in itertools.product([True,False],[False,True]):
    cfg.should_validate_automata=v; cfg.allow_mutable_automata=m
    res[(v,m)]=[battery(s) for s in range(300)]
base=res[(True,False)]
for k,r in res.items():
    diffs=[(s,a,b) for s,(x,y) in enumerate(zip(base,r)) for a,b in zip(x,y) if a!=b]
    print(k,len(diffs),diffs[:3])
print(Counter(x[1:] for b in base for x in b if len(x)>2 and x[1]=='EXC'))
