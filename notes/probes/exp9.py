import itertools, random
from automata.fa.dfa import DFA
from automata.fa.nfa import NFA
from collections import Counter
import automata.base.exceptions as ex
random.seed(6)
def words(syms, L):
    for k in range(L+1):
        for w in itertools.product(syms, repeat=k):
            yield ''.join(w)
bad=Counter(); shown=Counter()
def report(kind,*a):
    bad[kind]+=1
    if shown[kind]<2: shown[kind]+=1; print('BAD',kind,*[str(x)[:300] for x in a])
def is_min(D, syms, promised=True):
    M=D.minify()
    return len(M.states)==len(D.states)
for syms in ['a','ab','abc']:
    S=set(syms); W=list(words(syms,7 if len(syms)<3 else 6))
    pats=[w for w in words(syms,4)]
    def chk(name, mk, pred, minimal=False, pat=None):
        for kw in mk:
            try:
                D=kw(); D.validate()
            except Exception as e:
                report(name+'-exc',type(e).__name__,e,syms,pat); continue
            for w in W:
                if D.accepts_input(w)!=pred(w)^getattr(kw,'neg',False):
                    report(name,syms,pat,w,getattr(kw,'desc','')); break
            if minimal and len(syms)>=2 and pat:
                for part in (D,):
                    M=D.minify()
                    # same kind? compare state counts with minify of its completion/partial
                    if D.allow_partial:
                        M=D.to_partial(minify=True)
                    else:
                        M=D.to_complete().minify() if False else D.minify()
                    if not D.allow_partial and M.allow_partial:
                        # minify turned complete to partial? shouldn't
                        pass
                    if len(M.states)<len(D.states) and not(D.allow_partial!=M.allow_partial): report(name+'-notmin',syms,pat,getattr(kw,'desc',''),len(D.states),len(M.states))
    def variants(f, flags):
        out=[]
        for combo in itertools.product(*[[(k,v) for v in vs] for k,vs in flags.items()]):
            kw=dict(combo)
            g=(lambda kw=kw: f(**kw)); g.neg=(kw.get('contains',True) is False); g.desc=str(kw); out.append(g)
        return out
    for p in pats:
        chk('prefix', variants(lambda **kw: DFA.from_prefix(S,p,**kw), {'contains':[True,False],'as_partial':[True,False]}), lambda w:w.startswith(p), True, p)
        if p or True:
            chk('suffix', variants(lambda **kw: DFA.from_suffix(S,p,**kw), {'contains':[True,False]}), lambda w:w.endswith(p), True, p)
        chk('substring', variants(lambda **kw: DFA.from_substring(S,p,**kw), {'contains':[True,False],'must_be_suffix':[True,False]}), None, False, p) if False else None
        chk('substring', variants(lambda **kw: DFA.from_substring(S,p,**kw), {'contains':[True,False]}), lambda w:p in w, True, p)
        chk('subseq', variants(lambda **kw: DFA.from_subsequence(S,p,**kw), {'contains':[True,False]}), lambda w: all(c in it for c in p) if (it:=iter(w)) is not None else False, True, p)
    # substrings sets
    for _ in range(150):
        ps=set(random.sample(pats, random.randint(0,3)))
        chk('substrings', variants(lambda **kw: DFA.from_substrings(S,ps,**kw), {'contains':[True,False]}), lambda w:any(p in w for p in ps), False, ps)
        chk('substrings-suf', variants(lambda **kw: DFA.from_substrings(S,ps,must_be_suffix=True,**kw), {'contains':[True,False]}), lambda w:any(w.endswith(p) for p in ps), False, ps)
        L=set(random.sample(W[:60], random.randint(0,6)))
        chk('finite', variants(lambda **kw: DFA.from_finite_language(S,L,**kw), {'as_partial':[True,False]}), lambda w:w in L, True, L)
    for mn in range(0,4):
        for mx in [None,0,1,2,3,4]:
            for cnt in [None, set(syms[:1]), set()]:
                c = S if cnt is None else cnt
                chk('of_length', [lambda: DFA.of_length(S,min_length=mn,max_length=mx,symbols_to_count=cnt)], lambda w: mn<=sum(ch in c for ch in w) and (mx is None or sum(ch in c for ch in w)<=mx), False, (mn,mx,cnt))
    for k in range(1,5):
        for rem in [None,{0},{1},{0,k-1},set(), {k}, {k+3}]:
            for cnt in [None,set(syms[:1])]:
                c = S if cnt is None else cnt
                r={0} if rem is None else rem
                chk('count_mod', [lambda: DFA.count_mod(S,k,remainders=rem,symbols_to_count=cnt)], lambda w: sum(ch in c for ch in w)%k in r, False, (k,rem,cnt))
    for n in range(1,4):
        for s in syms:
            chk('nth_start', [lambda: DFA.nth_from_start(S,s,n)], lambda w: len(w)>=n and w[n-1]==s, True, (s,n))
            chk('nth_end', [lambda: DFA.nth_from_end(S,s,n)], lambda w: len(w)>=n and w[-n]==s, True, (s,n))
    chk('univ',[lambda: DFA.universal_language(S)], lambda w:True)
    chk('empty',[lambda: DFA.empty_language(S)], lambda w:False)
print(dict(bad))
