from automata.pda.dpda import DPDA
from automata.fa.dfa import DFA
from automata.fa.nfa import NFA
push=['Z']
dp=DPDA(states={'q0','q1'}, input_symbols={'a'}, stack_symbols={'Z','X'}, transitions={'q0':{'a':{'Z':('q1',push)}}}, initial_state='q0', initial_stack_symbol='Z', final_states={'q1'}, acceptance_mode='final_state')
print(dp.transitions['q0']['a']['Z'])
push.append('X')
print(dp.transitions['q0']['a']['Z'])
# weird state names: None, tuples, frozensets, mixed
d=DFA(states={None,1}, input_symbols={'a'}, transitions={None:{'a':1},1:{'a':None}}, initial_state=None, final_states={1})
print([w for w in ['','a','aa','aaa'] if d.accepts_input(w)])
d2=DFA(states={0,None}, input_symbols={'a','b'}, transitions={0:{'a':None},None:{'a':0}}, initial_state=0, final_states={None}, allow_partial=True)
print([w for w in ['','a','aa','aaa','b','ab','aba'] if d2.accepts_input(w)], 'expected [a, aaa]')
try: print(list(d2.read_input_stepwise('aba',ignore_rejection=True)))
except Exception as e: print(type(e),e)
print(d2==d2.copy(), d2.minify())
