import itertools, random
from automata.fa.dfa import DFA
from automata.fa.nfa import NFA
from automata.fa.gnfa import GNFA
import automata.regex.regex as rx
from collections import Counter
random.seed(9)
def words(syms, L):
    for k in range(L+1):
        for w in itertools.product(syms, repeat=k):
            yield ''.join(w)
W=list(words('ab',7))
def rand_nfa(n, syms, eps=True):
    states=list(range(n)); tr={}
    for s in states:
        if random.random()<0.2: continue
        tr[s]={}
        for a in list(syms)+(['']*eps):
            if random.random()<0.5: continue
            k=random.choice([0,1,1,2])
            tr[s][a]=set(random.sample(states,min(k,n)))
    if states[0] not in tr: tr[states[0]]={}
    fin={s for s in states if random.random()<0.4}
    return NFA(states=set(states), input_symbols=set(syms), transitions=tr, initial_state=states[0], final_states=fin)
def rand_dfa(n, syms, partial):
    states=list(range(n)); tr={}
    for s in states:
        tr[s]={}
        for a in syms:
            if partial and random.random()<0.4: continue
            tr[s][a]=random.choice(states)
    fin={s for s in states if random.random()<0.4}
    return DFA(states=set(states), input_symbols=set(syms), transitions=tr, initial_state=states[0], final_states=fin, allow_partial=partial)
bad=Counter(); shown=Counter()
def report(kind,*a):
    bad[kind]+=1
    if shown[kind]<3: shown[kind]+=1; print('BAD',kind,*[str(x)[:400] for x in a])
tot=Counter()
for it in range(2500):
    if it%2:
        A=rand_nfa(random.randint(1,4),'ab'); mk=GNFA.from_nfa; kind='nfa'
    else:
        A=rand_dfa(random.randint(1,4),'ab',random.random()<0.5); mk=GNFA.from_dfa; kind='dfa'
    LA=frozenset(w for w in W if A.accepts_input(w))
    if not LA: 
        tot['empty']+=1
        try:
            r=mk(A).to_regex(); tot['empty-regex-'+repr(r)[:10]]+=1
        except Exception as e: tot['empty-exc-'+type(e).__name__]+=1
        continue
    tot[kind]+=1
    try:
        G=mk(A); r=G.to_regex()
    except Exception as e: report(kind+'-exc',type(e).__name__,e,A); continue
    if r is None: report(kind+'-None',A); continue
    try:
        N=NFA.from_regex(r,input_symbols={'a','b'})
    except Exception as e: report(kind+'-invalid-regex',type(e).__name__,r,A); continue
    if frozenset(w for w in W if N.accepts_input(w))!=LA: report(kind+'-lang',r,A)
print(dict(bad)); print(dict(tot))
