import traceback, itertools, random
from automata.fa.dfa import DFA
from automata.fa.nfa import NFA
from automata.tm.mntm import MNTM
from automata.tm.dtm import DTM
from automata.tm.ntm import NTM
def t(name, f):
    try:
        print(name, '=>', f())
    except Exception as e:
        print(name, 'RAISED', type(e).__name__, e)

# C17: left move from leftmost cell, tape 1
def mk(n_tapes, trans, finals={'qf'}):
    return MNTM(states={'q0','q1','qf'}, input_symbols={'a'}, tape_symbols={'a','#','x'}, n_tapes=n_tapes,
        transitions=trans, initial_state='q0', blank_symbol='#', final_states=finals)
m = mk(1, {'q0': {('a',): [('q1', (('x','L'),))]}, 'q1': {('#',): [('qf', (('#','R'),))]}})
t('native', lambda: m.accepts_input('a'))
t('as_ntm', lambda: [c for c in m.read_input_as_ntm('a')][-1])
m2 = mk(2, {'q0': {('a','#'): [('q1', (('a','N'),('x','L')))]}, 'q1': {('a','#'): [('qf', (('a','N'),('#','N')))]}})
t('native2', lambda: m2.accepts_input('a'))
t('as_ntm2', lambda: [c for c in m2.read_input_as_ntm('a')][-1])
m3 = mk(2, {'q0': {('a','#'): [('q1', (('a','R'),('x','R')))]}, 'q1': {('#','#'): [('qf', (('a','N'),('#','N')))]}})
t('native3', lambda: m3.accepts_input('a'))
t('as_ntm3', lambda: [c for c in m3.read_input_as_ntm('a')][-1])
# rejecting
m4 = mk(2, {'q0': {('a','#'): [('q1', (('a','R'),('x','R')))]}})
t('native4', lambda: m4.accepts_input('a'))
t('as_ntm4', lambda: [c for c in m4.read_input_as_ntm('a')][-1])
# input with symbols ^ or _ ?
# empty input
t('native5', lambda: m3.accepts_input(''))
t('as_ntm5', lambda: [c for c in m3.read_input_as_ntm('')][-1])
