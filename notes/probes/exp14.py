import itertools, random
from automata.tm.dtm import DTM
from automata.tm.ntm import NTM
from automata.tm.mntm import MNTM
import automata.base.exceptions as ex
from collections import Counter
random.seed(11)
def words(syms, L):
    for k in range(L+1):
        for w in itertools.product(syms, repeat=k):
            yield ''.join(w)
W=list(words('ab',4))
TS=['a','b','x','.']
def rand_tm(n):
    states=list(range(n))+['f']
    tr={}
    for q in range(n):
        for s in TS:
            if random.random()<0.35: continue
            tr.setdefault(q,{})[s]=(random.choice(states),random.choice(TS),random.choice('LRN'))
    if 0 not in tr: tr[0]={'a':('f','a','N')}
    return states,tr
def run_limited(gen, limit):
    out=[]
    try:
        for i,c in enumerate(gen):
            out.append(c)
            if i>=limit: return out,'limit'
        return out,'accept'
    except ex.RejectionException:
        return out,'reject'
def norm_tape(t):
    # canonical: dict of nonblank cells relative to head
    cells={i-t.current_position:s for i,s in enumerate(t.tape) if s!=t.blank_symbol}
    return tuple(sorted(cells.items()))
def ref_step(tr,q,cells,pos):
    s=cells.get(pos,'.')
    if q not in tr or s not in tr[q]: return None
    q2,w,d=tr[q][s]
    cells=dict(cells)
    if w=='.': cells.pop(pos,None)
    else: cells[pos]=w
    pos+= {'L':-1,'R':1,'N':0}[d]
    return q2,cells,pos
bad=Counter(); shown=Counter()
def report(kind,*a):
    bad[kind]+=1
    if shown[kind]<3: shown[kind]+=1; print('BAD',kind,*[str(x)[:500] for x in a])
for it in range(1500):
    n=random.randint(1,3)
    states,tr=rand_tm(n)
    common=dict(states=set(states),input_symbols={'a','b'},tape_symbols=set(TS),initial_state=0,blank_symbol='.',final_states={'f'})
    try:
        D=DTM(transitions=tr,**common)
        N=NTM(transitions={q:{s:{v} for s,v in p.items()} for q,p in tr.items()},**common)
        M=MNTM(transitions={q:{(s,):[(v[0],((v[1],v[2]),))] for s,v in p.items()} for q,p in tr.items()},n_tapes=1,**common)
    except Exception as e: report('ctor',type(e).__name__,e,tr); continue
    for w in W:
        LIM=40
        d,ds=run_limited(D.read_input_stepwise(w),LIM)
        nn,ns=run_limited(N.read_input_stepwise(w),LIM)
        mm,ms=run_limited(M.read_input_stepwise(w),LIM)
        # reference
        q,cells,pos=0,{i:c for i,c in enumerate(w)},0
        ref=[(q,tuple(sorted((k-pos,v) for k,v in cells.items())))]
        status='limit'
        for i in range(LIM):
            if q=='f': status='accept'; break
            r=ref_step(tr,q,cells,pos)
            if r is None: status='reject'; break
            q,cells,pos=r
            ref.append((q,tuple(sorted((k-pos,v) for k,v in cells.items()))))
        else:
            if q=='f': status='accept'
        got=[(c.state,norm_tape(c.tape)) for c in d]
        if ds!=status and not (status=='limit' or ds=='limit'): report('dtm-verdict',tr,w,ds,status)
        if got[:len(ref)]!=ref[:len(got)]: report('dtm-trace',tr,w,got[:5],ref[:5])
        if {ds,ns,ms}-{'limit'} and len({ds,ns,ms}-{'limit'})>1: report('cross',tr,w,ds,ns,ms)
        gotn=[[(c.state,norm_tape(c.tape)) for c in S] for S in nn]
        for k,(S,r) in enumerate(zip(gotn,ref)):
            if S!=[r]: report('ntm-trace',tr,w,k,S,r); break
        if ns=='reject' and (len(gotn)!=len(ref)+1 or gotn[-1]!=[]): 
            pass
        gotm=[[(c.state,norm_tape(c.tapes[0])) for c in S] for S in mm]
        for k,(S,r) in enumerate(zip(gotm,ref)):
            if S!=[r]: report('mntm-trace',tr,w,k,S,r); break
print(dict(bad))
