import pickle, copy
from automata.fa.dfa import DFA
from automata.fa.nfa import NFA
from automata.fa.gnfa import GNFA
from automata.pda.dpda import DPDA
from automata.pda.npda import NPDA
from automata.tm.dtm import DTM
from automata.tm.ntm import NTM
from automata.tm.mntm import MNTM
import automata.base.config as cfg
def t(name, f):
    try:
        print(name, '=>', f())
    except Exception as e:
        print(name, 'RAISED', type(e).__name__, e)
d=DFA.from_prefix({'a','b'},'ab')
n=NFA.from_regex('a*b|c')
g=GNFA.from_dfa(d)
dp=DPDA(states={'q0','q1'}, input_symbols={'a'}, stack_symbols={'Z'}, transitions={'q0':{'a':{'Z':('q1',('Z',))}}}, initial_state='q0', initial_stack_symbol='Z', final_states={'q1'}, acceptance_mode='final_state')
np_=NPDA(states={'q0','q1'}, input_symbols={'a'}, stack_symbols={'Z'}, transitions={'q0':{'a':{'Z':{('q1',('Z',))}}}}, initial_state='q0', initial_stack_symbol='Z', final_states={'q1'}, acceptance_mode='final_state')
tm=DTM(states={'q0','qf'}, input_symbols={'a'}, tape_symbols={'a','.'}, transitions={'q0':{'a':('qf','a','R')}}, initial_state='q0', blank_symbol='.', final_states={'qf'})
nt=NTM(states={'q0','qf'}, input_symbols={'a'}, tape_symbols={'a','.'}, transitions={'q0':{'a':{('qf','a','R')}}}, initial_state='q0', blank_symbol='.', final_states={'qf'})
mt=MNTM(states={'q0','qf'}, input_symbols={'a'}, tape_symbols={'a','.'}, n_tapes=1, transitions={'q0':{('a',):[('qf',(('a','R'),))]}}, initial_state='q0', blank_symbol='.', final_states={'qf'})
for name,o in [('dfa',d),('nfa',n),('gnfa',g),('dpda',dp),('npda',np_),('dtm',tm),('ntm',nt),('mntm',mt)]:
    t(name+' copy', lambda: (type(o.copy()) is type(o), o.copy().input_parameters==o.input_parameters))
    t(name+' pickle', lambda: (type(pickle.loads(pickle.dumps(o))) is type(o), pickle.loads(pickle.dumps(o)).input_parameters==o.input_parameters))
    t(name+' setattr', lambda: setattr(o,'states',set()))
    t(name+' delattr', lambda: delattr(o,'states'))
    t(name+' types', lambda: {k:type(v).__name__ for k,v in o.input_parameters.items()})
# nested
print(type(mt.transitions['q0'][('a',)]), type(np_.transitions['q0']['a']['Z']))
# mutable mode
cfg.allow_mutable_automata=True
tr={0:{'a':{1}},1:{}}
a=NFA(states={0,1},input_symbols={'a'},transitions=tr,initial_state=0,final_states={1})
import json
def snap(x): return repr(sorted((repr(k),repr(v)) for k,v in x.input_parameters.items()))
for opname in ['kleene_star','option','reverse','eliminate_lambda']:
    s=snap(a); r=getattr(a,opname)(); 
    print(opname,'unchanged',snap(a)==s, 'alias', any(r.transitions.get(k) is v for k,v in a.transitions.items()))
for opname in ['union','concatenate','intersection','shuffle_product','left_quotient','right_quotient']:
    s=snap(a)
    try: r=getattr(a,opname)(a)
    except Exception as e: print(opname,'exc',e); continue
    print(opname,'unchanged',snap(a)==s)
dd=DFA(states={0,1},input_symbols={'a'},transitions={0:{'a':1},1:{'a':1}},initial_state=0,final_states={1})
s=snap(dd)
for opname in ['minify','complement','to_partial','to_complete']:
    r=getattr(dd,opname)(); print(opname, snap(dd)==s, r.transitions is dd.transitions, any(r.transitions.get(k) is v for k,v in dd.transitions.items()))
r=dd.complement(minify=False); print('complement nominify shares transitions', r.transitions is dd.transitions)
