import itertools, random
from automata.tm.mntm import MNTM
from automata.tm.ntm import NTM
import automata.base.exceptions as ex
import automata.tm.exceptions as tex
from collections import Counter
random.seed(13)
TS=['a','b','.']
def rand_mntm(n,k,dirs):
    states=list(range(n))+['f']; tr={}
    for q in range(n):
        for syms in itertools.product(TS,repeat=k):
            if random.random()<0.5: continue
            outs=[]
            for _ in range(random.choice([1,1,2])):
                outs.append((random.choice(states),tuple((random.choice(TS),random.choice(dirs)) for _ in range(k))))
            tr.setdefault(q,{})[syms]=outs
    if 0 not in tr: tr[0]={tuple('a' for _ in range(k)):[('f',tuple(('a','N') for _ in range(k)))]}
    return MNTM(states=set(states),input_symbols={'a','b'},tape_symbols=set(TS),n_tapes=k,transitions=tr,initial_state=0,blank_symbol='.',final_states={'f'})
def verdict(gen,limit):
    try:
        for i,c in enumerate(gen):
            if i>limit: return 'limit'
        return 'accept'
    except ex.RejectionException: return 'reject'
    except Exception as e: return 'EXC-'+type(e).__name__
cnt=Counter(); shown=Counter()
for dirs in ['RN','LRN']:
  for it in range(600):
    k=random.randint(1,3); m=rand_mntm(random.randint(1,2),k,dirs)
    for w in ['','a','ab','ba','aab']:
        a=verdict(m.read_input_stepwise(w),300); b=verdict(m.read_input_as_ntm(w),300)
        key=(dirs,a,b)
        cnt[key]+=1
        if a!=b and 'limit' not in (a,b) and shown[key]<1:
            shown[key]+=1; print(key,dict(m.transitions),w)
for k,v in sorted(cnt.items(),key=str): print(k,v)
