import itertools, random, sys
from automata.fa.dfa import DFA
from automata.fa.nfa import NFA
from collections import Counter
random.seed(3)
def rand_nfa(n, syms, eps=True, names=None):
    states=list(range(n)) if names is None else names[:n]
    tr={}
    for s in states:
        if random.random()<0.2: continue
        tr[s]={}
        for a in list(syms)+(['']*eps):
            r=random.random()
            if r<0.45: continue
            k=random.choice([0,1,1,2])
            tr[s][a]=set(random.sample(states,min(k,n)))
    if states[0] not in tr: tr[states[0]]={}
    fin={s for s in states if random.random()<0.4}
    return NFA(states=set(states), input_symbols=set(syms), transitions=tr, initial_state=states[0], final_states=fin)
def words(syms, L):
    for k in range(L+1):
        for w in itertools.product(syms, repeat=k):
            yield ''.join(w)
W=list(words('ab',7))
def lang(d): return frozenset(w for w in W if d.accepts_input(w))
bad=Counter(); shown=Counter()
def report(kind,*a):
    bad[kind]+=1
    if shown[kind]<2: shown[kind]+=1; print('BAD',kind,*[str(x)[:400] for x in a])
def shuffle(u,v):
    if not u: return {v}
    if not v: return {u}
    return {u[0]+w for w in shuffle(u[1:],v)}|{v[0]+w for w in shuffle(u,v[1:])}
for it in range(1500):
    A=rand_nfa(random.randint(1,4),'ab'); B=rand_nfa(random.randint(1,3),'ab')
    LA,LB=lang(A),lang(B)
    # C07
    for mn in (True,False):
        for rn in (True,False):
            try:
                D=DFA.from_nfa(A,minify=mn,retain_names=rn); D.validate()
                if lang(D)!=LA: report('from_nfa',A,D)
            except Exception as e: report('from_nfa-exc',type(e).__name__,e,A)
    try:
        E=A.eliminate_lambda(); E.validate()
        if lang(E)!=LA: report('elim',A,E)
        if any('' in p for p in E.transitions.values()): report('elim-eps',A,E)
        if NFA._compute_reachable_states(E.initial_state,E.transitions)!=set(E.states): report('elim-unreach',A,E)
    except Exception as e: report('elim-exc',type(e).__name__,e,A)
    # C09
    try:
        if (A==B)!=(LA==LB): report('nfa-eq',A,B,A==B)
        if (A!=B)!=(LA!=LB): report('nfa-ne',A,B)
        if (A==B)!=(B==A): report('nfa-sym',A,B)
    except Exception as e: report('eq-exc',type(e).__name__,e,A,B)
    # C08
    L6=[w for w in W if len(w)<=5]
    def cut(S): return frozenset(w for w in S if len(w)<=5)
    ops={
     'union':(lambda:A.union(B), lambda: LA|LB),
     'concat':(lambda:A.concatenate(B), lambda: {u+v for u in LA for v in LB}),
     'star':(lambda:A.kleene_star(), None),
     'option':(lambda:A.option(), lambda: LA|{''}),
     'reverse':(lambda:A.reverse(), lambda:{w[::-1] for w in LA}),
     'inter':(lambda:A.intersection(B), lambda: LA&LB),
     'shuffle':(lambda:A.shuffle_product(B), lambda: set().union(*[shuffle(u,v) for u in LA if len(u)<=5 for v in LB if len(u)+len(v)<=5]) if LA and LB else set()),
     'rquot':(lambda:A.right_quotient(B), None),
     'lquot':(lambda:A.left_quotient(B), None),
    }
    for k,(f,g) in ops.items():
        try:
            R=f(); R.validate(); LR=lang(R)
        except Exception as e:
            report(k+'-exc',type(e).__name__,e,A,B); continue
        if k=='star':
            S={''}
            for _ in range(6): S|={u+v for u in S for v in LA if len(u)+len(v)<=5}
            exp=cut(S)
        elif k=='rquot':
            # w in A/B iff exists v in L(B): wv in L(A). need unbounded v; approximate by exact DFA computation
            DA=DFA.from_nfa(A); 
            exp=None
        elif k=='lquot':
            exp=None
        else: exp=cut(g())
        if exp is not None and cut(LR)!=exp: report(k,A,B,R)
        if k in('rquot','lquot'):
            # exact check via product reachability: w in A/B iff from state-set after w in A, exists v in B reaching final
            for w in L6[:40]:
                if k=='rquot':
                    # residual of A by w intersect B nonempty
                    try: SA=list(A.read_input_stepwise(w))[-1]
                    except Exception: SA=None
                    cfg=None
                    for c in A.read_input_stepwise.__func__(A,w) if False else []: pass
                # simpler: bounded check with longer v
                pass
print(dict(bad))
