import itertools, random, sys
from automata.fa.dfa import DFA
from automata.fa.nfa import NFA
import automata.base.exceptions as ex
random.seed(2)
def rand_dfa(n, syms, partial):
    states=list(range(n))
    tr={}
    for s in states:
        tr[s]={}
        for a in syms:
            if partial and random.random()<0.35: continue
            tr[s][a]=random.choice(states)
    fin={s for s in states if random.random()<0.4}
    return DFA(states=set(states), input_symbols=set(syms), transitions=tr, initial_state=states[0], final_states=fin, allow_partial=partial)
def words(syms, L):
    for k in range(L+1):
        for w in itertools.product(syms, repeat=k):
            yield ''.join(w)
W={s:list(words(s,8)) for s in ('ab','abc')}
def lang(d, syms):
    return frozenset(w for w in W[syms] if d.accepts_input(w))
from collections import Counter
bad=Counter()
shown=Counter()
def report(kind, *a):
    bad[kind]+=1
    if shown[kind]<2:
        shown[kind]+=1; print('BAD',kind,*a)
for it in range(6000):
    syms='ab'
    A=rand_dfa(random.randint(1,4),syms,random.random()<0.5)
    B=rand_dfa(random.randint(1,4),syms,random.random()<0.5)
    LA,LB=lang(A,syms),lang(B,syms)
    U=frozenset(W[syms])
    for name,op,exp in [('union',A.union,LA|LB),('inter',A.intersection,LA&LB),('diff',A.difference,LA-LB),('symdiff',A.symmetric_difference,LA^LB)]:
        for mn in (True,False):
            for rn in (True,False):
                try:
                    R=op(B,minify=mn,retain_names=rn)
                    R.validate()
                    if lang(R,syms)!=exp: report(name+f'-{mn}-{rn}',A,B,R)
                except Exception as e:
                    report(name+f'-exc-{mn}-{rn}',type(e).__name__,e,A,B)
    for mn in (True,False):
        for rn in (True,False):
            try:
                R=A.complement(minify=mn,retain_names=rn); R.validate()
                if lang(R,syms)!=U-LA: report(f'compl-{mn}-{rn}',A,R)
            except Exception as e: report('compl-exc',type(e).__name__,e,A)
    try:
        C=A.to_complete(); C.validate()
        if lang(C,syms)!=LA or any(len(C.transitions[s])!=2 for s in C.states): report('to_complete',A,C)
    except Exception as e: report('to_complete-exc',type(e).__name__,e,A)
    for mn in (True,False):
        try:
            P=A.to_partial(minify=mn); P.validate()
            if lang(P,syms)!=LA: report(f'to_partial-{mn}',A,P)
        except Exception as e: report('to_partial-exc',type(e).__name__,e,A)
    # comparisons (bounded-language proxy; small automata so length 8 words decide for <=4x4 states... product 16(+traps 25) so not exact but fine)
    def chk(name,got,exp):
        if got!=exp: report(name,A,B,got,exp)
    try:
        chk('eq',A==B,LA==LB); chk('ne',A!=B,LA!=LB); chk('le',A<=B,LA<=LB); chk('lt',A<B,LA<LB); chk('ge',A>=B,LA>=LB); chk('gt',A>B,LA>LB)
        chk('disj',A.isdisjoint(B),not(LA&LB)); chk('empty',A.isempty(),not LA)
    except Exception as e: report('cmp-exc',type(e).__name__,e,A,B)
    # finite
    try:
        fin = A.isfinite()
        # exact: finite iff no word of length in [n, 2n) accepted where n=#states(+1)
        n=len(A.states)+1
        inf = any(len(w)>=n and len(w)<2*n for w in LA) if 2*n-1<=8 else None
        if inf is not None and fin==inf: report('isfinite',A,fin)
    except Exception as e: report('fin-exc',type(e).__name__,e,A)
print(dict(bad))
