import itertools, random, signal
from automata.pda.dpda import DPDA
from automata.pda.npda import NPDA
import automata.pda.exceptions as pex
import automata.base.exceptions as ex
from collections import Counter
random.seed(10)
def words(syms, L):
    for k in range(L+1):
        for w in itertools.product(syms, repeat=k):
            yield ''.join(w)
W=list(words('ab',5))
STK=['Z','X']
def rand_table(n, det):
    tr={}
    for q in range(n):
        for a in ['a','b','']:
            for z in STK:
                if random.random()<0.6: continue
                k=1 if det else random.choice([1,1,2])
                outs=set()
                for _ in range(k):
                    push=random.choice([(),('Z',),('X',),('X','Z'),('Z','X'),('X','X')])
                    if a=='': push=()  # keep eps moves shrinking to avoid infinite loops
                    outs.add((random.randrange(n),push if push else ''))
                tr.setdefault(q,{}).setdefault(a,{})[z]=outs
    return tr
def oracle(tr, n, fin, mode, w, limit=4000):
    # BFS all configs; eps moves only pop => terminate
    start=(0,w,('Z',))
    seen={start}; fr=[start]
    while fr:
        nf=[]
        for (q,rem,st) in fr:
            acc = (not rem) and (((mode in('empty_stack','both')) and not st) or ((mode in ('final_state','both')) and q in fin))
            if acc: return True
            top=st[-1] if st else ''
            for a in ([rem[0]] if rem else [])+['']:
                for (q2,push) in tr.get(q,{}).get(a,{}).get(top,()):
                    st2=st[:-1]+tuple(reversed(push)) if push!='' else st[:-1]
                    c=(q2, rem[1:] if a else rem, st2)
                    if c not in seen and len(st2)<12: seen.add(c); nf.append(c)
        fr=nf
        if len(seen)>limit: return None
    return False
bad=Counter(); shown=Counter()
def report(kind,*a):
    bad[kind]+=1
    if shown[kind]<3: shown[kind]+=1; print('BAD',kind,*[str(x)[:500] for x in a])
def is_det(tr):
    for q,p in tr.items():
        for z in STK:
            if z in p.get('',{}) and any(z in p.get(a,{}) for a in 'ab'): return False
    return True
class TO(Exception): pass
def h(*a): raise TO()
signal.signal(signal.SIGALRM,h)
cnt=Counter()
for it in range(1200):
    n=random.randint(1,3); fin={q for q in range(n) if random.random()<0.4}
    mode=random.choice(['final_state','empty_stack','both'])
    tr=rand_table(n,True)
    trn={q:{a:{z:set(v) for z,v in d.items()} for a,d in p.items()} for q,p in tr.items()}
    trd={q:{a:{z:next(iter(v)) for z,v in d.items()} for a,d in p.items()} for q,p in tr.items()}
    common=dict(states=set(range(n)),input_symbols={'a','b'},stack_symbols=set(STK),initial_state=0,initial_stack_symbol='Z',final_states=fin,acceptance_mode=mode)
    N=NPDA(transitions=trn,**common)
    try:
        D=DPDA(transitions=trd,**common); detok=True
    except pex.NondeterminismError: detok=False
    except Exception as e: report('dpda-ctor-exc',type(e).__name__,e,trd); continue
    if detok!=is_det(tr): report('det-validation',trd,detok)
    for w in W[:25]:
        o=oracle(trn,n,fin,mode,w)
        if o is None: continue
        signal.alarm(2)
        try:
            g=N.accepts_input(w)
            if g!=o: report('npda',trn,fin,mode,w,g,o)
            if detok:
                gd=D.accepts_input(w); cnt['d']+=1
                if gd!=o: 
                    startacc = (w=='' and ((mode!='empty_stack' and 0 in fin)))
                    report('dpda-startacc' if startacc else 'dpda',trd,fin,mode,w,gd,o)
        except TO: report('timeout',trn,w)
        except Exception as e: report('exc',type(e).__name__,e,trn,w)
        finally: signal.alarm(0)
print(dict(bad),dict(cnt))
