from automata.fa.nfa import NFA
from automata.fa.gnfa import GNFA
from itertools import product
n=NFA(states={0,1,2,3}, input_symbols={'a','b'}, transitions={0:{'b':{1},'':set()},1:{'a':{2},'b':{1},'':set()},2:{'a':{1},'':{0}}}, initial_state=0, final_states={0,2})
g=GNFA.from_nfa(n)
print(g.initial_state,g.final_state)
for s,p in g.transitions.items(): print(s,dict(p))
self=g
new_states=set(self.states); new_transitions={s:dict(p) for s,p in self.transitions.items()}
while len(new_states)>2:
    q_rip=self._find_min_connected_node(new_states,new_transitions,self.initial_state,self.final_state)
    print('RIP',q_rip)
    new_states.remove(q_rip)
    for q_i,q_j in product(new_states-{self.final_state}, new_states-{self.initial_state}):
        r1=new_transitions[q_i][q_rip]; r2=new_transitions[q_rip][q_rip]; r3=new_transitions[q_rip][q_j]; r4=new_transitions[q_i][q_j]
        if r1 is None or r3 is None: new_transitions[q_i][q_j]=r4
        else:
            o=(r1,r2,r3,r4)
            if self._isbracket_req(r1): r1=f"({r1})"
            if r2 is None: r2=""
            elif len(r2)==1: r2=f"{r2}*"
            else: r2=f"({r2})*"
            if self._isbracket_req(r3): r3=f"({r3})"
            if r4 is None: r4=""
            elif self._isbracket_req(r4): r4=f"|({r4})"
            elif r4=="": r4="?"
            else: r4=f"|{r4}"
            if r4=="?" and len(r1)+len(r2)+len(r3)>1: new_transitions[q_i][q_j]=f"({r1}{r2}{r3}){r4}"
            else: new_transitions[q_i][q_j]=f"{r1}{r2}{r3}{r4}"
            print('  ',q_i,q_j,o,'->',new_transitions[q_i][q_j])
    del new_transitions[q_rip]
    for s in new_states-{self.final_state}: del new_transitions[s][q_rip]
