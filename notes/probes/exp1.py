import traceback
from automata.fa.dfa import DFA
from automata.fa.nfa import NFA
from automata.fa.gnfa import GNFA
import automata.regex.regex as rx
def t(name, f):
    try:
        print(name, '=>', f())
    except Exception as e:
        print(name, 'RAISED', type(e).__name__, e)

# C13 iter empty
t('iter empty', lambda: list(DFA.empty_language({'a'})))
t('len empty', lambda: len(DFA.empty_language({'a'})))
# C10 a{0,0}
for r in ['a{0,0}','a{,0}','a{0,1}','a{1,1}','(ab){0,0}','a{2,2}','a{0,2}']:
    n = NFA.from_regex(r, input_symbols={'a','b'})
    print(r, [w for w in ['','a','aa','aaa','ab','abab'] if n.accepts_input(w)])
# C11 blank-only
t('validate blank', lambda: rx.validate(' '))
t('compile blank', lambda: NFA.from_regex(' '))
t('validate empty', lambda: rx.validate(''))
t('compile empty', lambda: NFA.from_regex('').accepts_input(''))
t('compile ( )', lambda: NFA.from_regex('( )').accepts_input(''))
t('validate a{2,1}', lambda: rx.validate('a{2,1}'))
t('compile a{2,1}', lambda: NFA.from_regex('a{2,1}'))
t('validate a{x,1}', lambda: rx.validate('a{x,1}'))
t('validate {1,2}', lambda: rx.validate('{1,2}'))
t('validate a|{1,2}', lambda: rx.validate('a|{1,2}'))
t('validate a{1,2}{1,2}', lambda: rx.validate('a{1,2}{1,2}'))
t('validate a**', lambda: rx.validate('a**'))
t('compile a**', lambda: NFA.from_regex('a**').accepts_input('aaa'))
# C15 from_suffix ''
t('from_suffix empty', lambda: DFA.from_suffix({'a','b'}, ''))
t('from_substring empty', lambda: DFA.from_substring({'a','b'}, '').accepts_input('ab'))
t('from_substrings empty set', lambda: DFA.from_substrings({'a','b'}, set()).accepts_input('ab'))
t('from_substrings {""}', lambda: DFA.from_substrings({'a','b'}, {''}).accepts_input('ab'))
# C14 empty alphabet, foreign symbol
d = DFA(states={0}, input_symbols=set(), transitions={0:{}}, initial_state=0, final_states={0})
t('succ empty alphabet', lambda: list(d.successors('', strict=False)))
d2 = DFA.from_prefix({'a','b'}, 'ab')
t('succ foreign', lambda: d2.successor('x', max_length=3))
t('succ unreadable', lambda: d2.successor('ba', max_length=3))
t('succ None', lambda: d2.successor(None, max_length=3))
