import itertools, random, sys
from automata.fa.dfa import DFA
from automata.fa.nfa import NFA
random.seed(1)
def rand_dfa(n, syms, partial, names=None):
    states=list(range(n)) if names is None else names[:n]
    tr={}
    for s in states:
        tr[s]={}
        for a in syms:
            if partial and random.random()<0.35: continue
            tr[s][a]=random.choice(states)
    fin={s for s in states if random.random()<0.4}
    allp = any(len(tr[s])!=len(syms) for s in states)
    return DFA(states=set(states), input_symbols=set(syms), transitions=tr, initial_state=states[0], final_states=fin, allow_partial=partial)
def words(syms, L):
    for k in range(L+1):
        for w in itertools.product(syms, repeat=k):
            yield ''.join(w)
def lang(d, syms, L=7):
    return {w for w in words(syms,L) if d.accepts_input(w)}
def nerode_min(d, syms):
    # complete with sink None, reachable, moore
    def step(s,a):
        if s is None: return None
        return d.transitions[s].get(a)
    reach=[d.initial_state]; seen={d.initial_state}
    for s in reach:
        for a in syms:
            t=step(s,a)
            if t not in seen: seen.add(t); reach.append(t)
    cls={s:(s in d.final_states) for s in reach}
    while True:
        sig={s:(cls[s],tuple(cls[step(s,a)] for a in syms)) for s in reach}
        ids={}; new={s:ids.setdefault(sig[s],len(ids)) for s in reach}
        if len(set(new.values()))==len(set(cls.values())): break
        cls=new
    ncls=len(set(cls.values()))
    # dead class: class that is nonfinal and all self loops
    dead=[c for c in set(cls.values()) if all((not (s in d.final_states if s is not None else False)) for s in reach if cls[s]==c) and all(cls[step(s,a)]==c for s in reach if cls[s]==c for a in syms)]
    return ncls, len(dead)
bad=0
for it in range(20000):
    n=random.randint(1,5); syms='ab' if random.random()<0.8 else 'abc'
    partial=random.random()<0.7
    names=None
    pass
    d=rand_dfa(n,syms,partial,names)
    try:
        m=d.minify()
    except Exception as e:
        print('EXC', type(e).__name__, e, d); bad+=1; continue
    ncls,ndead=nerode_min(d,syms)
    is_partial_result = any(len(m.transitions[s])!=len(syms) for s in m.states)
    exp = ncls if not is_partial_result else max(1,ncls-ndead)
    if lang(m,syms,6)!=lang(d,syms,6) or len(m.states)!=exp:
        bad+=1
        if bad<6: print('BAD', d, '\n  ->', m, ncls, ndead, lang(m,syms,6)==lang(d,syms,6))
print('bad', bad)
