import itertools, random, sys
from automata.fa.dfa import DFA
from automata.fa.nfa import NFA
from collections import Counter
import automata.base.exceptions as ex
random.seed(4)
def words(syms, L):
    for k in range(L+1):
        for w in itertools.product(syms, repeat=k):
            yield ''.join(w)
bad=Counter(); shown=Counter()
def report(kind,*a):
    bad[kind]+=1
    if shown[kind]<2: shown[kind]+=1; print('BAD',kind,*[str(x)[:500] for x in a])
# C16 edit distance
def within(ref,w,k,ins,dele,sub):
    # min edits with allowed ops from ref to w
    INF=99
    n,m=len(ref),len(w)
    D=[[INF]*(m+1) for _ in range(n+1)]
    D[0][0]=0
    for i in range(n+1):
        for j in range(m+1):
            c=D[i][j]
            if c>=INF: continue
            if i<n and j<m and ref[i]==w[j]: D[i+1][j+1]=min(D[i+1][j+1],c)
            if ins and j<m: D[i][j+1]=min(D[i][j+1],c+1)
            if dele and i<n: D[i+1][j]=min(D[i+1][j],c+1)
            if sub and i<n and j<m: D[i+1][j+1]=min(D[i+1][j+1],c+1)
    return D[n][m]<=k
W=list(words('ab',6))
for ref in ['', 'a','ab','aa','aba','abba','bbb']:
    for k in range(0,3):
        for ins,dele,sub in itertools.product([0,1],repeat=3):
            if not(ins or dele or sub): continue
            try:
                N=NFA.edit_distance({'a','b'},ref,k,insertion=bool(ins),deletion=bool(dele),substitution=bool(sub))
            except Exception as e: report('ed-exc',type(e).__name__,e,ref,k,ins,dele,sub); continue
            for w in W:
                if N.accepts_input(w)!=within(ref,w,k,ins,dele,sub): report('ed',ref,k,(ins,dele,sub),w,N.accepts_input(w)); break
# C13
def rand_dfa(n, syms, partial):
    states=list(range(n)); tr={}
    for s in states:
        tr[s]={}
        for a in syms:
            if partial and random.random()<0.4: continue
            tr[s][a]=random.choice(states)
    fin={s for s in states if random.random()<0.4}
    return DFA(states=set(states), input_symbols=set(syms), transitions=tr, initial_state=states[0], final_states=fin, allow_partial=partial)
W7=list(words("ab",9))
for it in range(1500):
    A=rand_dfa(random.randint(1,4),'ab',random.random()<0.6)
    LA=[w for w in W7 if A.accepts_input(w)]
    n=len(A.states)
    infinite = any(n<=len(w)<2*n for w in LA)
    for k in range(0,6):
        exp=sorted(w for w in LA if len(w)==k)
        try:
            if A.count_words_of_length(k)!=len(exp): report('count',A,k)
            if list(A.words_of_length(k))!=exp: report('words',A,k,list(A.words_of_length(k)),exp)
        except Exception as e: report('count-exc',type(e).__name__,e,A,k)
        try:
            w=A.random_word(k,seed=it)
            if w not in exp: report('rand',A,k,w)
        except ValueError:
            if exp: report('rand-VE',A,k)
        except Exception as e: report('rand-exc',type(e).__name__,e,A,k)
    try:
        mn=A.minimum_word_length()
        if not LA or mn!=min(map(len,LA)): report('minlen',A,mn)
    except ex.EmptyLanguageException:
        if LA: report('minlen-E',A)
    try:
        mx=A.maximum_word_length()
        if not LA: report('maxlen-noexc',A,mx)
        elif infinite and mx is not None: report('maxlen-inf',A,mx)
        elif not infinite and mx!=max(map(len,LA)): report('maxlen',A,mx)
    except ex.EmptyLanguageException:
        if LA: report('maxlen-E',A)
    try:
        c=A.cardinality()
        if infinite: report('card-inf',A,c)
        elif c!=len(LA): report('card',A,c,len(LA))
        if len(A)!=c: report('len',A)
    except ex.InfiniteLanguageException:
        if not infinite: report('card-I',A)
    except Exception as e: report('card-exc',type(e).__name__,e,A)
    try:
        got=list(itertools.islice(iter(A),12))
        exp=sorted(LA,key=lambda w:(len(w),w))[:12]
        if got!=exp[:len(got)] or (len(got)<12 and len(got)!=len(LA)): report('iter',A,got,exp)
    except Exception as e: report('iter-exc-'+type(e).__name__,A)
    # C14
    for start in [None,'','a','b','ab','ba','bb','aab']:
        for strict in (True,False):
            for (mnl,mxl) in [(0,4),(1,3),(2,2),(0,None)]:
                if mxl is None and infinite: continue
                cand=[w for w in LA if mnl<=len(w) and (mxl is None or len(w)<=mxl)]
                if start is None: exp=sorted(cand)
                else: exp=sorted(w for w in cand if (w>start or (not strict and w==start)))
                try:
                    got=list(A.successors(start,strict=strict,min_length=mnl,max_length=mxl))
                    if got!=exp: report('succ',A,start,strict,mnl,mxl,got,exp)
                    g1=A.successor(start,strict=strict,min_length=mnl,max_length=mxl)
                    if g1!=(exp[0] if exp else None): report('succ1',A,start,strict,mnl,mxl,g1,exp[:1])
                except Exception as e: report('succ-exc',type(e).__name__,e,A,start)
                if start is None: continue
                expp=sorted((w for w in cand if (w<start or (not strict and w==start))),reverse=True)
                try:
                    got=list(A.predecessors(start,strict=strict,min_length=mnl,max_length=mxl))
                    if infinite: report('pred-noexc',A)
                    elif got!=expp: report('pred',A,start,strict,mnl,mxl,got,expp)
                except ex.InfiniteLanguageException:
                    if not infinite: report('pred-I',A)
                except Exception as e: report('pred-exc',type(e).__name__,e,A,start)
print(dict(bad))
